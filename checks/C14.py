"""C14 serialization under concurrency; pooled coders leak no state.

proof: Props/C14.v (Model/Pool.v, Model/Registry.v).
correspondence + property oracles (harness/cmd/c14, modelrun-c14):
  eseq      sessions of operations on pooled / user-held encoders  vs Pool.enc_step (op by op)
            oracle O1: a pooled use observes what the same operations observe on new(io.Encoder)
            oracle O2: a writer attached for a whole use receives every flushed byte exactly once
  dseq      the same for decoders                                  vs Pool.dec_step
            oracle O3: pooled use == new(io.Decoder);  O4: mode switch + new input == NewDecoder(input)
  scribble  decode, overwrite the input and churn the pool, the value must not change
                                                                   vs Pool.own_decode (all Owned)
  viewapi   buffer-level entry points: documented-unsafe ones alias, safe ones do not
  race      goroutines x types that are fresh in the process (one process per scenario) must equal
            the single-goroutine output of another fresh process (witness SEARCH only)
  forced    with the io yield hook (hooks/c14-io.patch) in the tree under test: the witness
            schedules of C14_registry_linearizable_refuted[_mutual] on the real code vs Registry.step
"""
import json
import os
import re
from concurrent.futures import ThreadPoolExecutor

import hv

K_RESETBUF = "encoder-resetbuffer-keeps-off"
K_POOL_WRITER = "pool-encoder-writer-survives-free"
K_POOL_OFF = "pool-encoder-off-survives-free"
K_DEC_SIMPLE = "decoder-reset-in-simple-mode-keeps-refer"
K_PUBLISH = "struct-encoder-published-before-fields"
K_DEC_PUBLISH = "struct-decoder-published-before-fields"
N_WIDE = 40
FIXED_FLAGS = "1111"     # Pool.all_fixed: the variant the headline theorems of Props/C14.v are stated for
K_POOL_DECBUF = "pool-decoder-keeps-user-input-as-read-buffer"
K_DEC_BUF = "decoder-resetreader-keeps-previous-input-as-buffer"

COQ_WITNESS = {
    K_RESETBUF: "C14_resetbuffer_refuted",
    K_POOL_WRITER: "C14_reset_is_fresh_encoder_refuted / C14_pooled_writer_leak",
    K_POOL_OFF: "C14_reset_is_fresh_encoder_refuted_off",
    K_DEC_SIMPLE: "C14_decoder_simple_true_refuted",
    K_PUBLISH: "C14_registry_linearizable_refuted / C14_registry_linearizable_refuted_mutual",
    K_POOL_DECBUF: "C14_reset_is_fresh_decoder_refuted / C14_pooled_decoder_buffer_leak / C14_pooled_decoder_hang",
    K_DEC_BUF: "C14_pooled_decoder_buffer_leak (same mechanism on a user-held decoder)",
    K_DEC_PUBLISH: "old_registry_refuted_enclosing (Registry LTS without the lock = a lock that does not span publication and "
                   "assignment); C14_registry_linearizable needs the locked LTS",
}


def hx(s):
    return s.encode().hex() if isinstance(s, str) else bytes(s).hex()


# ------------------------------------------------------------------------------ encoder sessions
STRS = ["", "a", "ab", "hello", "ab", "hello", "key", "x" * 12]


class ValGen:
    """values over nil / int / ASCII string / []interface{} / *CA *CB *CC with pointer identity;
    one (class, addr) always has the same fields (the harness reuses the object)."""

    def __init__(self, rng):
        self.rng = rng
        self.objs = {}

    def val(self, depth=0):
        r = self.rng
        c = r.random()
        if depth >= 3:
            c = c * 0.55
        if c < 0.12:
            return ["N"]
        if c < 0.32:
            return ["I%d" % r.choice([0, 5, 9, 10, -1, 12345, 2147483647, -2147483648, 2147483648, -99999999999])]
        if c < 0.55:
            return ["S" + hx(r.choice(STRS))]
        if c < 0.75:
            n = r.choice([0, 1, 2, 3])
            out = ["L%d" % n]
            for _ in range(n):
                out += self.val(depth + 1)
            return out
        cls = r.choice([0, 0, 1, 2])
        # pointer identity: one address, one object; pointers to the zero-size CC all compare equal in Go
        addr = 10 * cls + (r.randint(1, 4) if cls != 2 else 0)
        key = (cls, addr)
        if key not in self.objs:
            n = [1, 2, 0][cls]
            self.objs[key] = None          # reserve: a nested occurrence of the same key is nil'd
            fs = []
            for _ in range(n):
                v = self.val(depth + 1)
                fs.append(v)
            self.objs[key] = fs
        fs = self.objs[key]
        if fs is None:
            return ["N"]
        out = ["O%d.%d.%d" % (cls, addr, len(fs))]
        for f in fs:
            out += f
        return out


def gen_eseq(ctx, n):
    cases = []
    r = ctx.rng
    for i in range(n):
        flavour = r.choice(["lib", "lib", "lib", "writers", "held"])
        vg = ValGen(r)
        sessions = []
        for _ in range(r.randint(2, 6)):
            if flavour == "held" and r.random() < 0.6:
                get = "new:%s" % r.choice(["1", "2", "-"])
            else:
                get = "pool"
            ops = []
            if get == "pool" and r.random() < 0.8:
                ops.append("S%d" % r.randint(0, 1))
            for _ in range(r.randint(1, 7)):
                c = r.random()
                if c < 0.40:
                    ops.append(" ".join(["E"] + vg.val()))
                elif c < 0.52:
                    ops.append(" ".join(["W"] + vg.val()))
                elif c < 0.58:
                    ops.append("T %d" % r.choice([72, 67, 122, 82]))
                elif c < 0.64:
                    ops.append("R")
                elif c < 0.69:
                    ops.append("B")
                elif c < 0.76:
                    ops.append("S%d" % r.randint(0, 1))
                elif c < 0.80:
                    ops.append("E X")
                elif c < 0.86:
                    ops.append("Y")
                elif c < 0.90:
                    ops.append("G")
                elif c < 0.93:
                    ops.append("Q")
                elif c < 0.96:
                    ops.append("F")
                elif flavour == "writers":
                    ops.append("SW %s" % r.choice(["1", "2", "-"]))
                else:
                    ops.append("Y")
            ops.append("F")
            ops.append("Y")
            free = (get == "pool" and r.random() < 0.92) or (get != "pool" and r.random() < 0.1)
            sessions.append({"get": get, "ops": ops, "free": free})
        cases.append({"id": 100000 + i, "kind": "eseq", "flavour": flavour, "sessions": sessions})
    # directed: the histories of the refutation theorems
    d = 190000
    cases.append({"id": d, "kind": "eseq", "flavour": "directed", "sessions": [
        {"get": "new:1", "ops": ["E S" + hx("hello"), "B", "E S" + hx("world!"), "F"], "free": False}]})
    cases.append({"id": d + 1, "kind": "eseq", "flavour": "directed", "sessions": [
        {"get": "pool", "ops": ["SW 1", "E S" + hx("hello")], "free": True},
        {"get": "pool", "ops": ["S1", "E S" + hx("secret-of-next-user"), "Y"], "free": True}]})
    cases.append({"id": d + 2, "kind": "eseq", "flavour": "directed", "sessions": [
        {"get": "pool", "ops": ["SW 1", "E S" + hx("hello"), "SW -"], "free": True},
        {"get": "pool", "ops": ["SW 2", "E S" + hx("world!"), "Y"], "free": True}]})
    return cases


def seq_model_line(kind, case, obs, flags="0000"):
    parts = [kind + ":" + flags]
    for s, so in zip(case["sessions"], obs["sessions"]):
        parts.append("#")
        parts.append("%s %d %d" % (s["get"], so["got"], 1 if s["free"] else 0))
        for op in s["ops"]:
            parts.append("@")
            parts.append(op)
    return " ".join(parts)


def writer_delivery_oracle(s, so):
    """O2 (independent of the model): for NewEncoder(w) with w attached for the whole use and no
    failing value: what w received == the bytes every flushing operation had pending."""
    if not s["get"].startswith("new:") or s["get"] == "new:-":
        return None
    if any(op.startswith("SW") or op == "E X" for op in s["ops"]):
        return None
    pending, expected, got = "", "", ""
    for op, ob, gr in zip(s["ops"], so["obs"], so["grown"]):
        if gr == "reset":
            pending = ""
        else:
            pending += gr
        if ob.startswith("fl:"):
            _, err, wid, data = ob.split(":")
            if err != "-":
                return None
            got += data
            expected += pending
            pending = ""
    if got != expected:
        return "writer received %s, the flushed operations produced %s" % (short_hex(got), short_hex(expected))
    return None


def short_hex(h):
    try:
        t = bytes.fromhex(h).decode("latin1")
    except ValueError:
        t = h
    return repr(t if len(t) < 90 else t[:90] + "...")


def eval_eseq(ctx, cases, byid, mlines):
    disagreements = []
    for c, ml in zip(cases, mlines):
        o = byid[c["id"]]
        nontrivial = sum(1 for so in o["sessions"] if so["got"] >= 0) > 0
        ctx.count_case("eseq|" + json.dumps(c["sessions"]), nontrivial=nontrivial)
        ctx.bump("eseq_flavour", c["flavour"])
        msess = ml.split(" # ")
        for k, (s, so) in enumerate(zip(c["sessions"], o["sessions"])):
            ctx.bump("eseq_sessions", "reused" if so["got"] >= 0 else ("pool-new" if so["got"] == -1 else "held"))
            seen = " ".join(so["obs"])
            if k >= len(msess) or msess[k] != seen:
                disagreements.append((c, o, k, msess[k] if k < len(msess) else "<missing>", seen))
            # O1
            if s["get"] == "pool" and so["obs"] != so["shadow"]:
                j = next(i for i, (a, b) in enumerate(zip(so["obs"], so["shadow"])) if a != b)
                if so["writer_at_get"]:
                    key = K_POOL_WRITER
                elif so["ever_writer"]:
                    key = K_POOL_OFF
                else:
                    key = "pool-encoder-state-survives-free:op-" + s["ops"][j].split(" ")[0]
                ctx.report(key, "pooled encoder (released %d uses ago) is not like a new one: operation %r observed %s, a new "
                           "encoder observes %s%s" % (so["got"], s["ops"][j][:60], short_obs(so["obs"][j]), short_obs(so["shadow"][j]),
                                                     " (the previous user's Writer is still attached)" if so["writer_at_get"] else ""),
                           {"case": c, "observation": o, "session": k, "failing_input": True, "coq_witness": COQ_WITNESS.get(key)})
            # O2
            why = writer_delivery_oracle(s, so)
            if why:
                key = K_RESETBUF if "B" in s["ops"] else "encoder-writer-delivery"
                ctx.report(key, "NewEncoder(w) " + " ; ".join(x[:24] for x in s["ops"]) + ": " + why,
                           {"case": c, "observation": o, "session": k, "failing_input": True, "coq_witness": COQ_WITNESS.get(key)})
        if len(ctx.cov["samples"]) < 2 and nontrivial:
            ctx.sample({"eseq": c["sessions"][:2], "observed": [so["obs"] for so in o["sessions"][:2]]})
    return disagreements


def short_obs(o):
    p = o.split(":")
    if p[0] == "fl":
        return "Flush err=%s writer=%s got %s" % (p[1], p[2], short_hex(p[3]))
    if p[0] == "by":
        return "Bytes()=" + short_hex(p[1])
    return o


# ------------------------------------------------------------------------------ decoder sessions
def wire_samples():
    ok = ['s5"hello"', "i12345;", "7", "n", "e", "t", "f", "ux", "l5;", "l77;", "d1.5;", "d-2.25;",
          'a2{s5"hello"r1;}', 'a3{1i22;s2"ab"}', "a{}", 'a2{a1{s2"ab"}r2;}', 'a2{s2"ab"s2"ab"}', "a2{a1{1}r1;}",
          'a3{l9;d0.25;s3"abc"}']
    bad = ["", "r0;", "r3;", "Z", "a3{12", 'a2{s2"ab"r7;}', "a2{1Z}"]
    return ok, bad


def gen_dseq(ctx, n):
    r = ctx.rng
    ok, bad = wire_samples()
    cases = []
    for i in range(n):
        sessions = []
        flavour = r.choice(["pool", "pool", "held"])
        for _ in range(r.randint(2, 6)):
            w0 = r.choice(ok + bad)
            if flavour == "held" and r.random() < 0.6:
                get = r.choice(["newdec:", "newreader:"]) + hx(w0)
                ops = []
            else:
                get = "pool"
                ops = []
            for _ in range(r.randint(1, 5)):
                c = r.random()
                w = r.choice(ok if r.random() < 0.7 else bad)
                if c < 0.22:
                    ops.append("S%d" % r.randint(0, 1))
                elif c < 0.30:
                    ops.append("R")
                elif c < 0.40:
                    ops.append("O%d.%d.%d.%d.%d" % (r.randint(0, 4), r.randint(0, 2), r.randint(0, 1), r.randint(0, 1), 0))
                elif c < 0.45:
                    ops.append("BF")
                elif c < 0.52:
                    ops.append("P")
                elif c < 0.57:
                    ops.append("G")
                elif c < 0.60:
                    ops.append("Q")
                else:
                    if r.random() < 0.5:
                        ops.append("S%d" % r.randint(0, 1))
                    ops.append(("RB" if r.random() < 0.7 else "RR") + hx(w))
                    ops.append("D")
                    if r.random() < 0.2:
                        ops.append("D")
            ops += ["G", "P"]
            free = (get == "pool" and r.random() < 0.92) or (get != "pool" and r.random() < 0.15)
            sessions.append({"get": get, "ops": ops, "free": free})
        cases.append({"id": 200000 + i, "kind": "dseq", "flavour": flavour, "sessions": sessions})
    d = 290000
    cases.append({"id": d, "kind": "dseq", "flavour": "directed", "sessions": [
        {"get": "newdec:" + hx('a2{s5"hello"r1;}'), "ops": ["S0", "D", "S1", "RB" + hx("r1;"), "D"], "free": False}]})
    # the codec pattern: reference mode, Reset(), then Simple(true)
    cases.append({"id": d + 1, "kind": "dseq", "flavour": "directed", "sessions": [
        {"get": "pool", "ops": ["RB" + hx('a2{s5"hello"r1;}r1;'), "D", "R", "S1", "D"], "free": True},
        {"get": "pool", "ops": ["RB" + hx("r1;"), "D"], "free": True}]})
    cases.append({"id": d + 2, "kind": "dseq", "flavour": "directed", "sessions": [
        {"get": "pool", "ops": ["RB" + hx("Z"), "O4.2.1.1.0", "D", "G"], "free": True},
        {"get": "pool", "ops": ["G", "P", "RB" + hx("l5;"), "D", "Q"], "free": True}]})
    cases.append({"id": d + 3, "kind": "dseq", "flavour": "directed", "sessions": [
        {"get": "pool", "ops": ["RB" + hx("i42;xxxxxxxxxxxxxxxx"), "D", "RR" + hx("i7;"), "D"], "free": True},
        {"get": "pool", "ops": ["RR" + hx('s19"secret-of-next-user"'), "D"], "free": True}]})
    cases.append({"id": d + 4, "kind": "dseq", "flavour": "directed", "sessions": [
        {"get": "pool", "ops": ["RB", "RR" + hx("i7;")], "free": True},
        {"get": "pool", "ops": ["RR" + hx("i7;"), "D"], "free": True}]})
    cases.append({"id": d + 5, "kind": "dseq", "flavour": "directed", "sessions": [
        {"get": "newdec:" + hx('s5"hello"'), "ops": ["D", "RR" + hx('s5"WORLD"'), "D"], "free": False}]})
    return cases


def same_decode_obs(model, seen):
    """operation-by-operation comparison; the model's "clobbers the caller's slice" is an upper
    bound of what can be seen (the bytes read may equal the bytes already there)"""
    a, b = model.split(" "), seen.split(" ")
    if len(a) != len(b):
        return False
    for x, y in zip(a, b):
        if x == y:
            continue
        if x.startswith("d:") and y.startswith("d:") and x.endswith(":c1") and y.endswith(":c0") and x[:-3] == y[:-3]:
            continue
        return False
    return True


def eval_dseq(ctx, cases, byid, mlines):
    disagreements = []
    for c, ml in zip(cases, mlines):
        o = byid[c["id"]]
        nontrivial = sum(1 for so in o["sessions"] if so["got"] >= 0) > 0
        ctx.count_case("dseq|" + json.dumps(c["sessions"]), nontrivial=nontrivial)
        ctx.bump("dseq_flavour", c["flavour"])
        msess = ml.split(" # ")
        for k, (s, so) in enumerate(zip(c["sessions"], o["sessions"])):
            ctx.bump("dseq_sessions", "reused" if so["got"] >= 0 else ("pool-new" if so["got"] == -1 else "held"))
            for ob in so["obs"]:
                if ob.startswith("d:"):
                    p = ob.split(":")
                    ctx.bump("dseq_decode_results", "hang" if p[1] == "HANG" else "panic" if p[1] == "PANIC" else p[-2])
                    if p[-1] == "c1":
                        ctx.bump("dseq_decode_results", "wrote-into-callers-slice")
            seen = " ".join(so["obs"])
            if "..." in seen:
                # a reference to a list that is still being read (only with a stale reference list): the value is
                # cyclic; the model has no cyclic values
                ctx.bump("dseq_inconclusive_cyclic_value")
            elif k >= len(msess) or not same_decode_obs(msess[k], seen):
                disagreements.append((c, o, k, msess[k] if k < len(msess) else "<missing>", seen))
            if s["get"] == "pool" and so["obs"] != so["shadow"]:
                j = next(i for i, (a, b) in enumerate(zip(so["obs"], so["shadow"])) if a != b)
                ob = so["obs"][j]
                if ob == "d:HANG" or ob.endswith(":c1"):
                    key = K_POOL_DECBUF
                    what = ("pooled decoder (released %d uses ago) still holds the slice an earlier user passed to ResetBytes as its read "
                            "buffer: %s" % (so["got"], "reading from the next user's reader never returns (zero-length buffer: "
                                            "loadMore spins)" if ob == "d:HANG" else
                                            "the next user's input was read into the earlier user's slice (" + ob + ")"))
                else:
                    key = "pool-decoder-state-survives-free:op-" + s["ops"][j][:2]
                    what = ("pooled decoder (released %d uses ago) is not like a new one: operation %r observed %s, a new decoder "
                            "observes %s" % (so["got"], s["ops"][j][:40], ob, so["shadow"][j]))
                ctx.report(key, what, {"case": c, "observation": o, "session": k, "failing_input": True,
                                       "coq_witness": COQ_WITNESS.get(key)})
            if s["get"] != "pool":
                simple = True
                for j, (op, ob, fr) in enumerate(zip(s["ops"], so["obs"], so.get("fresh") or [])):
                    if op in ("S0", "S1"):
                        simple = op == "S1"
                    if ob == "d:HANG" or (ob.startswith("d:") and ob.endswith(":c1")):
                        ctx.report(K_DEC_BUF, "user-held decoder after %s: %s" % (
                            " ; ".join(x[:12] for x in s["ops"][:j]),
                            "Decode never returns: the zero-length slice of the previous ResetBytes/NewDecoder is used as the read buffer"
                            if ob == "d:HANG" else "Decode read the reader's data into the slice of the previous ResetBytes/NewDecoder (" + ob + ")"),
                            {"case": c, "observation": o, "session": k, "failing_input": True, "coq_witness": COQ_WITNESS.get(K_DEC_BUF)})
                    elif fr and fr != ob:
                        key = K_DEC_SIMPLE if simple else "decoder-held-state-survives-reset"
                        ctx.report(key, "user-held decoder after %s: Decode of %s gives %s, NewDecoder on the same input in the same "
                                   "mode gives %s" % (" ; ".join(x[:12] for x in s["ops"][:j]), short_hex(last_input(s, j)), ob, fr),
                                   {"case": c, "observation": o, "session": k, "failing_input": True,
                                    "coq_witness": COQ_WITNESS.get(key)})
    return disagreements


def last_input(s, j):
    for op in reversed(s["ops"][:j]):
        if op.startswith("RB") or op.startswith("RR"):
            return op[2:]
    return s["get"].split(":", 1)[1] if ":" in s["get"] else ""


# ------------------------------------------------------------------------------ scribble
GUID = "g{e4a5b6c7-d8e9-4f01-a2b3-c4d5e6f70819}"
WIRES = {
    "str5": ('s5"hello"', "s"), "chr": ("uh", "char"), "bytes5": ('b5"hello"', "b"), "int": ("i12345;", "num"),
    "long": ("l1234567890123;", "num"), "dbl": ("d3.25;", "num"), "empty": ("e", "empty"), "true": ("t", "bool"),
    "digit": ("7", "digit"), "guid": (GUID, "guid"), "date": ("D20200102T030405Z", "time"), "time": ("T030405Z", "time"),
    "str300": ('s300"' + "hello-world-" * 25 + '"', "s"), "bytes300": ('b300"' + "0123456789" * 30 + '"', "b"),
    "digits3": ("a3{123}", "list3 digit digit digit"),
    "liststr": ('a2{s5"hello"s5"world"}', "list2 s s"), "listref": ('a2{s5"hello"r1;}', "list2 s ref0"),
    "listbytes": ('a2{b5"hello"b3"abc"}', "list2 b b"),
    "listlong": ('a3{s40"' + "abcdefgh" * 5 + '"b300"' + "#" * 300 + '"s5"hello"}', "list3 s b s"),
    "map": ('m2{s1"k"s5"hello"s2"kk"b3"abc"}', "map2 s s s b"),
    "objfoo": ('c3"Foo"2{s5"alpha"s4"beta"}o0{s5"hello"b3"abc"}', "obj2 s b"),
    "objsc": ('c2"SC"2{s1"s"s1"b"}o0{s5"hello"b5"world"}', "obj2 s b"),
    "structmap": ('m7{s1"s"s5"hello"s1"b"b5"world"s1"i"s3"ifc"s1"m"m1{s2"mk"s2"mv"}s1"l"a2{s3"abc"s3"def"}s1"a"b4"abcd"s1"p"s2"pp"}',
                  "map7 s s s b s s s map1 s s s list2 s s s b s s"),
    "arrb": ('b4"abcd"', "b"), "arrs": ('s4"abcd"', "s"),
    "numstr": ('s5"12345"', "s"), "fltstr": ('s4"3.25"', "s"), "badnum": ('s5"hello"', "s"), "boolstr": ('s4"true"', "s"),
}
DESTS = {
    "string": "str", "bytes": "bytes", "pstring": "ptr str", "pbytes": "ptr bytes", "iface": "iface",
    "islice": "slice iface", "strslice": "slice str", "bytesslice": "slice bytes", "mapss": "map str str",
    "mapsi": "map str iface", "mapsb": "map str bytes", "mapii": "map iface iface",
    "struct": "struct2 str bytes", "pstruct": "ptr struct2 str bytes", "arr4": "arr",
    "int": "scalar", "float": "scalar", "bigint": "scalar", "time": "scalar", "bool": "scalar",
}
CELLS = [
    ("string", ["str5", "chr", "bytes5", "int", "long", "dbl", "empty", "true", "digit", "guid", "date", "time", "str300", "bytes300"]),
    ("bytes", ["bytes5", "str5", "chr", "digits3", "empty", "guid", "str300", "bytes300"]),
    ("pstring", ["str5", "bytes5", "str300"]), ("pbytes", ["bytes5", "str5"]),
    ("iface", ["str5", "chr", "bytes5", "liststr", "listref", "listbytes", "listlong", "map", "objfoo", "objsc", "str300", "int", "guid"]),
    ("islice", ["liststr", "listref", "listbytes", "listlong"]), ("strslice", ["liststr", "listref", "listbytes", "listlong"]),
    ("bytesslice", ["listbytes", "liststr", "listref", "listlong"]),
    ("mapss", ["map"]), ("mapsi", ["map", "objfoo"]), ("mapsb", ["map"]), ("mapii", ["map"]),
    ("struct", ["structmap", "objsc"]), ("pstruct", ["objsc", "structmap"]),
    ("arr4", ["arrb", "arrs"]), ("int", ["numstr", "int", "badnum"]), ("float", ["fltstr", "badnum"]),
    ("bigint", ["long", "numstr", "badnum"]), ("time", ["date", "badnum"]), ("bool", ["boolstr", "badnum"]),
]
VIEW_APIS = ["UnsafeNext", "UnsafeUntil", "ReadUnsafeString", "EncoderBuffer", "EncoderUnsafeString"]
SAFE_APIS = ["Next", "Until", "ReadSafeString", "ReadString", "ReadBytes", "ReadStringAsBytes", "EncoderBytes", "EncoderString"]
# what the codecs and the Formatter return (every exit: value, error, panic error, unencodable result): the caller's own
# bytes, like Encoder.Bytes - looked at again after the pooled encoders have been reused
CODEC_APIS = ["Codec:senc-value", "Codec:senc-error", "Codec:senc-panic", "Codec:senc-unencodable", "Codec:cenc", "Codec:marshal"]
SAFE_APIS += CODEC_APIS


def gen_scribble(ctx):
    cases, cid = [], 300000
    for dest, wires in CELLS:
        for w in wires:
            for simple in (True, False):
                for via in ("slice", "fmt", "reader", "reader1", "reader7"):
                    cid += 1
                    cases.append({"id": cid, "kind": "scribble", "dest": dest, "wname": w, "wire": hx(WIRES[w][0]),
                                  "simple": simple, "via": via})
    for api in VIEW_APIS + SAFE_APIS:
        for via in (("slice",) if api in CODEC_APIS else ("slice", "reader")):
            for simple in (True, False):
                cid += 1
                cases.append({"id": cid, "kind": "viewapi", "api": api, "via": via, "simple": simple})
    return cases


def scribble_model_line(c):
    if c["kind"] == "viewapi":
        return "api %s 1" % ("EncoderBytes" if c["api"] in CODEC_APIS else c["api"])
    dty = DESTS[c["dest"]]
    w = WIRES[c["wname"]][1]
    if c["dest"] in ("struct", "pstruct") and c["wname"] == "structmap":
        dty = dty.replace("struct2 str bytes", "struct7 str bytes iface map str str slice str arr ptr str")
    return "own %d 1 %s %s" % (1 if c["simple"] else 0, dty, w)


def eval_scribble(ctx, cases, byid, mlines):
    disagreements = []
    for c, ml in zip(cases, mlines):
        o = byid[c["id"]]
        changed = o.get("before") != o.get("after") or o.get("err_before") != o.get("err_after")
        if c["kind"] == "viewapi":
            ctx.count_case("viewapi|%s|%s|%s" % (c["api"], c["via"], c["simple"]), nontrivial=True)
            ctx.bump("viewapi", "%s:%s" % (c["api"], "aliases" if changed else "stable"))
            if c["api"] in SAFE_APIS and changed:
                ctx.report("alias-api:" + c["api"], "%s (%s, simple=%s) returned data that changed when the input / the decoder's "
                           "buffer was overwritten: %s -> %s" % (c["api"], c["via"], c["simple"], o["before"], o["after"]),
                           {"case": c, "observation": o, "failing_input": True})
            elif (ml == "view") != changed:
                disagreements.append((c, o, 0, ml, "changed" if changed else "unchanged"))
            continue
        interesting = any(t in o.get("before", "") for t in ("s68656c6c6f", "b68656c6c6f", "68656c6c6f", "s61", "b61"))
        ctx.count_case("scribble|%s|%s|%s|%s" % (c["dest"], c["wname"], c["via"], c["simple"]), nontrivial=interesting)
        ctx.bump("scribble_dest", c["dest"])
        ctx.bump("scribble_via", c["via"])
        if o.get("panic"):
            ctx.bump("scribble_panics", c["dest"] + "<-" + c["wname"])
        if changed:
            ctx.report("alias:%s<-%s" % (c["dest"], WIRES[c["wname"]][1].split(" ")[0]),
                       "decoding %s into %s (%s, simple=%s): the decoded value changed after the input was overwritten and the "
                       "pooled decoders were reused: %s -> %s (error %r -> %r)"
                       % (short_hex(c["wire"]), c["dest"], c["via"], c["simple"], o["before"][:160], o["after"][:160],
                          o["err_before"][:80], o["err_after"][:80]),
                       {"case": c, "observation": o, "failing_input": True})
        if (ml == "owned") == changed:
            disagreements.append((c, o, 0, ml, "changed" if changed else "unchanged"))
    return disagreements


# ------------------------------------------------------------------------------ registries
N_GROUPS = 50
# struct-typed fields that are resolved to handlers when the type is built ([]TC elements go
# through the top-level path at encode time and are not handlers): TA TB TC TD TF
GROUP_TENV = "t:1,2,4 t:3 t:0 t:3 t:"
SLOT_MODEL = {   # the sample values of types_gen.go as Registry.sval (L empty in these slots)
    0: "v0.3 k0 v1.1 k0 v3.0 k1 v2.0 k2 v4.0",      # TA{In: TB{Q: &TD{}}, P: &TC{}, F: &TF{}}
    1: "v1.1 k0 v3.1 k0 v3.0",                     # TB{Q: &TD{Self: &TD{}}}
    2: "v2.1 k0 v0.1 k0 v1.0",                     # &TC{Back: &TA{In: TB{}}}
    4: "v0.1 k0 v1.0",                             # &TA{In: TB{}}
    5: "v3.1 k0 v3.0",                             # &TD{Self: &TD{}}
}
TYPE_LETTER = {0: "TA", 1: "TB", 2: "TC", 3: "TD", 4: "TF"}


def parse_structs(hexbytes):
    """struct writes in an encoder output, in order: class name, or '?' when the object refers to
    a class index that was never defined (written through a half-built encoder)."""
    b = bytes.fromhex(hexbytes)
    i, classes, out = 0, [], []
    n = len(b)

    def num(i):
        j = i
        while j < n and chr(b[j]) in "-0123456789":
            j += 1
        return (int(b[i:j]) if j > i else 0), j
    while i < n:
        ch = chr(b[i])
        if ch == "c":
            ln, j = num(i + 1)
            name = b[j + 1:j + 1 + ln].decode("latin1")
            classes.append(name[:2])
            i = j + 1 + ln + 1
            cnt, j = num(i)
            i = j + 1
            for _ in range(cnt):
                l2, j = num(i + 1)
                i = j + 1 + l2 + 1
            i += 1
        elif ch == "o":
            idx, j = num(i + 1)
            if idx >= len(classes):
                while len(classes) < idx:
                    classes.append("?")
                classes.append("?")
            # every generated type has fields: an object with an empty body was written with n = 0
            out.append("?" if b[j + 1:j + 2] == b"}" else classes[idx])
            i = j + 1
        elif ch in "sb":
            ln, j = num(i + 1)
            i = j + 1 + ln + 1
        elif ch == "u":
            i += 2
        elif ch in "ilrd":
            _, j = num(i + 1)
            while j < n and chr(b[j]) != ";":
                j += 1
            i = j + 1
        else:
            i += 1
    return out


def run_one_process(exe, case, race=False, timeout=120):
    rc, obs, err = hv.run_harness(exe, [case], timeout=timeout, race=race)
    return rc, (obs[0] if obs else None), err


def race_ops(r, n):
    ops = []
    for _ in range(n):
        k = r.random()
        if k < 0.75:
            ops.append({"op": "marshal", "slot": r.choice([0, 0, 1, 2, 3, 4]), "simple": r.random() < 0.5})
        elif k < 0.9:
            ops.append({"op": "cenc", "slot": r.choice([0, 1, 2, 3]), "simple": r.random() < 0.5})
        else:
            ops.append({"op": "senc", "slot": r.choice([0, 1, 2, 3]), "simple": r.random() < 0.5})
    return ops


def run_races(ctx, exe):
    """Statistical first-use races: every scenario runs in its own process (types are fresh once
    per process).  An aid to FIND witnesses: silence proves nothing (meta: limits)."""
    r = ctx.rng
    quick = ctx.tier == "quick"
    n_sc = 10 if quick else 60
    scen = []
    for i in range(n_sc):
        g = r.randrange(N_GROUPS)
        ops = race_ops(r, r.choice([8, 16, 24]))
        scen.append({"id": 400000 + i, "kind": "race", "group": g, "seed": r.randint(1, 99), "ops": ops})
    jobs = []
    for s in scen:
        jobs.append(dict(s, conc=False, id=s["id"]))
        jobs.append(dict(s, conc=True, id=s["id"] + 50000))
        if not quick:
            jobs.append(dict(s, conc=True, id=s["id"] + 60000))
    with ThreadPoolExecutor(max_workers=4) as ex:
        res = list(ex.map(lambda j: run_one_process(exe, j), jobs))
    byid = {}
    for j, (rc, o, err) in zip(jobs, res):
        if o is None:
            ctx.report("harness-crash:race", "executor died in a race scenario (rc=%d): %s" % (rc, err[-300:]),
                       {"case": j, "stderr": err[-2000:], "failing_input": True})
        else:
            byid[j["id"]] = o
    enc_solo = {}
    hits = 0
    for s in scen:
        solo = byid.get(s["id"])
        if not solo:
            continue
        enc_solo[s["id"]] = solo
        for off in (50000, 60000):
            conc = byid.get(s["id"] + off)
            if not conc:
                continue
            ctx.count_case("race|%d|%s" % (s["group"], json.dumps(s["ops"])), nontrivial=True)
            ctx.bump("race_goroutines", None, len(s["ops"]))
            for k, op in enumerate(s["ops"]):
                if conc["outs"][k] != solo["outs"][k] or conc["errs"][k] != solo["errs"][k]:
                    hits += 1
                    report_race(ctx, s, k, op, solo, conc, forced=False)
    ctx.note("race_scenarios", len(scen))
    ctx.note("race_mismatches_found_statistically", hits)
    # decode side: concurrent first-use decodes of the solo encodings, in fresh processes
    dec_jobs, dec_meta = [], []
    for s in scen[: (4 if quick else 20)]:
        solo = enc_solo.get(s["id"])
        if not solo:
            continue
        ops = []
        for k, op in enumerate(s["ops"]):
            if op["op"] == "marshal" and solo["errs"][k] == "-":
                ops.append({"op": r.choice(["unmarshal", "unmarshalr"]), "slot": op["slot"], "simple": op["simple"], "data": solo["outs"][k]})
            elif op["op"] == "senc" and solo["errs"][k] == "-":
                ops.append({"op": "cdec", "slot": op["slot"], "simple": op["simple"], "data": solo["outs"][k]})
        if not ops:
            continue
        base = {"kind": "race", "group": s["group"], "seed": s["seed"], "ops": ops}
        dec_jobs.append(dict(base, conc=False, id=s["id"] + 70000))
        dec_jobs.append(dict(base, conc=True, id=s["id"] + 80000))
        dec_meta.append((s["id"], base))
    with ThreadPoolExecutor(max_workers=4) as ex:
        res = list(ex.map(lambda j: run_one_process(exe, j), dec_jobs))
    dby = {j["id"]: o for j, (rc, o, err) in zip(dec_jobs, res) if o is not None}
    for sid, base in dec_meta:
        solo, conc = dby.get(sid + 70000), dby.get(sid + 80000)
        if not solo or not conc:
            continue
        ctx.count_case("race-dec|%d|%d" % (base["group"], len(base["ops"])), nontrivial=True)
        for k, op in enumerate(base["ops"]):
            if conc["outs"][k] != solo["outs"][k] or conc["errs"][k] != solo["errs"][k]:
                ctx.report("race-first-use-decode:" + op["op"], "concurrent first-use %s of a fresh type gave %s (%s); alone it gives %s (%s)"
                           % (op["op"], conc["outs"][k][:200], conc["errs"][k], solo["outs"][k][:200], solo["errs"][k]),
                           {"case": dict(base, conc=True), "solo": solo, "concurrent": conc, "failing_input": True, "statistical": True})
    ctx.note("race_decode_scenarios", len(dec_meta))


def report_race(ctx, s, k, op, solo, conc, forced, extra=None):
    got, want = conc["outs"][k], solo["outs"][k]
    structs = parse_structs(got) if op["op"] in ("marshal", "cenc", "senc") and got else []
    if conc["errs"][k].startswith("PANIC"):
        key = "race-first-use:panic"
    elif "?" in structs:
        key = K_PUBLISH
    else:
        key = "race-first-use:" + op["op"]
    rep = {"case": dict(s, conc=True), "goroutine": k, "solo": want, "concurrent": got, "failing_input": True,
           "statistical": not forced, "coq_witness": COQ_WITNESS.get(key)}
    if extra:
        rep.update(extra)
    ctx.report(key, "%s: goroutine %d (%s slot %d, simple=%s) wrote %s; alone the call writes %s. structs written: %s "
               "('?' = object of a class that was never defined: written through a half-built struct encoder)"
               % ("forced schedule " + s.get("shape", "") if forced else "first-use race of fresh types", k, op["op"], op["slot"],
                  op["simple"], short_hex(got), short_hex(want), structs),
               rep)


REPAIRS = {
    "resetbuffer_off": "/repo 717e8be: Encoder.ResetBuffer sets enc.off = 0",
    "free_writer": "/repo 717e8be: FreeEncoder sets encoder.Writer = nil",
    "reset_refer_always": "/repo e063fce: Decoder.Reset clears the reference list in simple mode too",
    "resetreader_drops": "/repo d41e43d: Decoder.ResetReader drops dec.buf when no reader was attached",
    "encoder_locked": "/repo efd3d7f: newNamedStructEncoder holds the write lock until fields are assigned, Write reads under RLock",
}


def func_body(path, header):
    """text of the Go function whose declaration starts with [header] (up to the first line that is just '}')"""
    try:
        src = open(os.path.join(hv.REPO, path)).read()
    except OSError:
        return ""
    i = src.find(header)
    if i < 0:
        return ""
    j = src.find("\n}\n", i)
    return src[i:j if j > 0 else len(src)]


def detect_variant():
    """which of the repairs proposed in hooks/c14-fix-*.patch the tree under test carries; a wrong guess
    shows up as a correspondence disagreement, never as a silent pass"""
    v = {
        "resetbuffer_off": "enc.off = 0" in func_body("io/encoder.go", "func (enc *Encoder) ResetBuffer()"),
        "free_writer": "Writer = nil" in func_body("io/pool.go", "func FreeEncoder("),
        "reset_refer_always": "IsSimple()" not in func_body("io/decoder.go", "func (dec *Decoder) Reset()"),
        "resetreader_drops": "dec.buf = nil" in func_body("io/decoder.go", "func (dec *Decoder) ResetReader("),
        "encoder_locked": ".Lock()" in func_body("io/struct_encoder.go", "func newNamedStructEncoder("),
    }
    flags = "".join("1" if v[k] else "0" for k in ("resetbuffer_off", "free_writer", "reset_refer_always", "resetreader_drops"))
    return v, flags


def lock_structure(path, ctor, store, assigns, reader, reads):
    """the critical section of a lazily built struct coder: in [ctor] the write lock is taken before the coder is stored
    ([store]) and is still held at the last of the assignments [assigns]; [reader] reads [reads] between RLock and RUnlock"""
    body = func_body(path, ctor)
    problems = []
    name = ctor.split("func ")[1].rstrip("(")
    lock, st = body.find(".Lock()"), body.find(store)
    apos = [body.find(a) for a in assigns]
    if lock < 0 or st < 0 or min(apos) < 0:
        problems.append("%s: cannot find Lock(), %s and %s (unrecognised shape)" % (name, store, " / ".join(assigns)))
    else:
        assign = max(apos)
        if not lock < st:
            problems.append("%s: the coder is published (%s) before the write lock is taken" % (name, store))
        if not st < min(apos):
            problems.append("%s: fields are assigned before the coder is published (unexpected order: the model publishes first)" % name)
        deferred = re.search(r"defer\s+\w+\.Unlock\(\)", body)
        unlock = body.find(".Unlock()")
        if deferred:
            if not lock < deferred.start() < st:
                problems.append("%s: the deferred Unlock is not placed between Lock() and the publication" % name)
        elif unlock < 0 or unlock < assign:
            problems.append("%s: the write lock is released before the last assignment" % name)
        if body.count(".Lock()") != 1 or body.count(".Unlock()") != 1:
            problems.append("%s: more than one Lock/Unlock (the critical section may be split)" % name)
    rd = func_body(path, reader)
    rname = reader.split(") ")[1].rstrip("(")
    rl, ru = rd.find(".RLock()"), rd.find(".RUnlock()")
    for what in reads:
        use = rd.find(what)
        if min(rl, use, ru) < 0 or not rl < use < ru:
            problems.append("%s does not read %s between RLock() and RUnlock()" % (rname, what))
        if rd.count(what) != 1:
            problems.append("%s reads %s more than once (a read outside the read lock)" % (rname, what))
    return problems


def decoder_lock_structure():
    """T1-style structural obligation for the DECODER side of the registry (the locked LTS of C14_registry_linearizable is
    only the code if this holds)"""
    return lock_structure("io/struct_decoder.go", "func newNamedStructDecoder(", "registerNamedStructDecoder(", [".fields ="],
                          "func (valdec *structDecoder) decodeField(", [".fields["])


def encoder_lock_structure():
    """the same obligation for the ENCODER side (since /repo efd3d7f)"""
    return lock_structure("io/struct_encoder.go", "func newNamedStructEncoder(", "registerNamedStructEncoder(",
                          ["encoder.fields =", "encoder.metadata ="],
                          "func (valenc *structEncoder) Write(", ["valenc.fields", "valenc.metadata"])


def run_decoder_first_use(ctx, exe):
    """decoder-side first uses: goroutine A decodes into a fresh WIDE type WT (150 fields: the field map takes long to
    build) while goroutines B decode into *WT, WO{In WT; P *WT} and []WT; one round per family, many families per
    process; every decoded value must equal the one a single goroutine gets in another process.  Witness search."""
    r = ctx.rng
    quick = ctx.tier == "quick"
    nproc, nfam = (3, 12) if quick else (12, 20)
    hits = 0
    for i in range(nproc):
        fams = r.sample(range(N_WIDE), nfam)
        simple = i % 2 == 0
        delays = r.choice([[0, 0, 0, 2, 2, 2, 5, 5, 5, 10, 10, 10], [0, 1, 2, 3, 4, 6, 8, 12, 16], [0] * 9])
        base = {"kind": "decrace", "families": fams, "seed": r.randint(1, 50), "simple": simple}
        rc, solo, err = run_one_process(exe, dict(base, id=800000 + i, conc=False))
        if solo is None:
            ctx.report("harness-crash:decrace", "executor died (single goroutine, wide types): " + err[-300:],
                       {"case": base, "failing_input": True})
            continue
        datas = [rd[:3] for rd in solo["rounds"]]
        conc_case = dict(base, id=810000 + i, conc=True, datas=datas, delays_us=delays)
        rc, conc, err = run_one_process(exe, conc_case)
        if conc is None:
            ctx.report("harness-crash:decrace", "executor died (concurrent first use of wide types): " + err[-300:],
                       {"case": dict(conc_case, datas="<from the single-goroutine run>"), "failing_input": True})
            continue
        for f, (rs, rc_) in enumerate(zip(solo["rounds"], conc["rounds"])):
            want = {"T": rs[3], "PT": rs[4], "O": rs[5], "S": rs[6]}
            ctx.count_case("decrace|%d|%d|%s" % (fams[f], len(delays), simple), nontrivial=True)
            for g, x in enumerate(rc_):
                tag, got = x.split(":", 1)
                ctx.bump("decrace_decodes", tag)
                if got != want[tag]:
                    hits += 1
                    ctx.report(K_DEC_PUBLISH, "concurrent first use of the fresh type WT%03d: goroutine %d decoding into %s got %s ... ; a single "
                               "goroutine gets %s ... (fields silently left at their zero values: decoded through a struct decoder whose "
                               "field map was not assigned yet)" % (fams[f], g, {"T": "WT", "PT": "*WT", "O": "WO{In WT; P *WT}", "S": "[]WT"}[tag],
                                                                   first_diff_snip(got, want[tag]), first_diff_snip(want[tag], got)),
                               {"case": dict(conc_case, datas=[datas[f]], families=[fams[f]]), "goroutine": g, "dest": tag,
                                "concurrent": got[:3000], "solo": want[tag][:3000], "failing_input": True, "statistical": True,
                                "coq_witness": COQ_WITNESS[K_DEC_PUBLISH]})
    ctx.note("decrace_processes", nproc)
    ctx.note("decrace_mismatches_found_statistically", hits)


def first_diff_snip(a, b):
    i = next((k for k in range(min(len(a), len(b))) if a[k] != b[k]), min(len(a), len(b)))
    return a[max(0, i - 30):i + 50]


FORCED_DEC_BLOCKS = {"PT": False, "O": True, "S": True}   # see run_forced_decoder


def decoder_hook_present():
    try:
        return "structdec.published" in open(os.path.join(hv.REPO, "io", "struct_decoder.go")).read()
    except OSError:
        return False


def run_forced_decoder(ctx):
    """goroutine A (first decode into WT) is held right after its decoder was published; goroutine B decodes into *WT, WO or []WT.
    With the lock spanning publication and assignment: the first WT of a stream carries its class definition and is re-dispatched
    through getValueDecoder (B builds its own decoder), every further WT goes through the handler captured at build time = A's
    placeholder, where decodeField waits: B must be blocked for O and S (not for PT) and every value must be right."""
    r = ctx.rng
    disagreements = []
    n = 3 if ctx.tier == "quick" else 12
    for i in range(n):
        bd = ("O", "S", "PT")[i % 3]
        fam = r.randrange(N_WIDE)
        simple = (i // 3) % 2 == 1
        base = {"kind": "decrace", "families": [fam], "seed": 5, "simple": simple}
        rc, solo, err = run_one_process("c14hook", dict(base, id=820000 + i, conc=False))
        case = {"id": 830000 + i, "kind": "forceddec", "families": [fam], "bdest": bd, "simple": simple,
                "datas": [solo["rounds"][0][:3]] if solo else []}
        rc2, o, err2 = run_one_process("c14hook", case) if solo else (1, None, "")
        if solo is None or o is None:
            ctx.report("harness-crash:forceddec", "executor died in a forced decoder schedule: " + (err + err2)[-300:],
                       {"case": case, "failing_input": True})
            continue
        if o.get("note"):
            ctx.bump("forceddec_inconclusive", o["note"][:40])
            continue
        ctx.count_case("forceddec|%s|%d|%s" % (bd, fam, simple), nontrivial=True)
        ctx.bump("forceddec", bd + (":reader-blocked" if o.get("blocked") else ""))
        rs = solo["rounds"][0]
        want = {"T": rs[3], "PT": rs[4], "O": rs[5], "S": rs[6]}
        wrong = [x.split(":", 1)[0] for x in o["rounds"][0] if x.split(":", 1)[1] != want[x.split(":", 1)[0]]]
        if wrong:
            tag = wrong[0]
            got = next(x for x in o["rounds"][0] if x.startswith(tag + ":")).split(":", 1)[1]
            ctx.report(K_DEC_PUBLISH, "forced schedule: goroutine A held after publishing the decoder of WT%03d; goroutine B decoding into %s "
                       "returned at once with %s ... ; alone it gets %s ..." % (fam, tag, first_diff_snip(got, want[tag]), first_diff_snip(want[tag], got)),
                       {"case": case, "observation": {"blocked": o.get("blocked")}, "concurrent": got[:3000], "solo": want[tag][:3000],
                        "failing_input": True, "replay_needs_hook": True, "coq_witness": COQ_WITNESS[K_DEC_PUBLISH]})
        elif bool(o.get("blocked")) != FORCED_DEC_BLOCKS[bd]:
            disagreements.append((case, o, 0, "reader-blocked=%s" % FORCED_DEC_BLOCKS[bd], "reader-blocked=%s" % bool(o.get("blocked"))))
    return disagreements


POOL_STEPS = [
    "sdec.ok", "sdec.simplehdr", "sdec.unknown", "sdec.unknown-missing-handler", "sdec.argerr", "sdec.badtag", "sdec.empty",
    "sdec.end", "sdec.hdrerr", "sdec.trunc", "sdec.noargs", "sdec.panic",
    "senc.ok", "senc.simple", "senc.err", "senc.panicerr", "senc.unsupported", "senc.panic",
    "cenc.ok", "cenc.simple", "cenc.unsupported", "cenc.panic",
    "cdec.ok", "cdec.error", "cdec.end", "cdec.badtag", "cdec.simplehdr", "cdec.trunc", "cdec.multi", "cdec.casterr",
    "cdec.noresult", "cdec.panic",
    "fmt.marshal", "fmt.marshal-ref", "fmt.marshal-unsupported", "fmt.unmarshal-ref", "fmt.unmarshal-ref-err",
    "fmt.unmarshal-ref-panic", "fmt.unmarshalr", "fmt.unmarshalr-err", "fmt.unmarshalr-panic",
]
K_POOL_TWICE = "pool-object-handed-out-twice"


def run_pool_users(ctx):
    """the USERS of the pools.  (a) go/ast walk (harness/cmd/c14pool): every Get* is followed at once by one deferred Free* of
    the same variable, nothing else frees, the object does not leave the function; unknown shapes fail.  (b) every codec /
    Formatter entry point through all its exits (ok, error, unknown method, missing-method handler, header error, truncated,
    panic); after each step the pools must be exclusive; then overlapping uses must each get their own data back."""
    hv.build_harness("c14pool")
    rc, obs, err = hv.run_harness("c14pool", [{"id": 1, "repo": hv.REPO}])
    problems = []
    if rc != 0 or not obs:
        problems.append("the go/ast walk did not run: " + err[-300:])
        sites = []
    else:
        problems += obs[0]["problems"]
        sites = obs[0]["sites"]
        # fail closed: every textual Get*() call outside io/pool.go must have been recognised as a site
        textual = 0
        for root, dirs, files in os.walk(hv.REPO):
            dirs[:] = [d for d in dirs if not d.startswith(".")]
            for f in files:
                if f.endswith(".go") and not f.endswith("_test.go") and os.path.relpath(os.path.join(root, f), hv.REPO) != os.path.join("io", "pool.go"):
                    textual += len(re.findall(r"\bGet(?:Encoder|Decoder)\(\)", open(os.path.join(root, f), errors="replace").read()))
        if textual != len(sites):
            problems.append("%d Get*() calls in the sources, %d recognised as '<v> := Get*()...; defer Free*(<v>)'" % (textual, len(sites)))
    ctx.note("pool_user_sites", ["%s %s (%s %s)" % (x["file"], x["func"], x["kind"], x["var"]) for x in sites])

    r = ctx.rng
    quick = ctx.tier == "quick"
    cases = [{"id": 900000, "kind": "poolusers", "steps": POOL_STEPS + ["conc"]}]
    for i in range(8 if quick else 60):
        steps = r.sample(POOL_STEPS, len(POOL_STEPS))[: r.randint(6, len(POOL_STEPS))]
        cases.append({"id": 900001 + i, "kind": "poolusers", "steps": steps + ["conc"]})
    cases, byid = run_cases(ctx, "c14", cases, "poolusers")
    found = False
    for c in cases:
        o = byid[c["id"]]
        ctx.count_case("poolusers|" + ",".join(c["steps"]), nontrivial=True)
        if o["excl"][0] != "ok":
            ctx.report(K_POOL_TWICE + ":before-any-step", "the pools are not exclusive before the first step: " + o["excl"][0],
                       {"case": c, "observation": o, "failing_input": True})
        for st, out, ex in zip(c["steps"], o["outs"], o["excl"][1:]):
            ctx.bump("pool_user_exits", st.split(".")[0] + ":" + out.split(":")[0].split("=")[0])
            if ex != "ok":
                found = True
                ctx.report(K_POOL_TWICE + ":" + st, "after the step %s (-> %s) the pool handed one object to two holders: %s (a coder was "
                           "put into the sync.Pool twice: two users now decode/encode through the same object)" % (st, out, ex),
                           {"case": dict(c, steps=c["steps"][: c["steps"].index(st) + 1]), "observation": {"outs": o["outs"], "excl": o["excl"]},
                            "failing_input": True, "coq_witness": "double_free_refuted (Props/C14.v); C14_pool_exclusive needs 'disciplined'"})
                break
            if st == "conc" and not out.startswith("wrong=0 "):
                found = True
                ctx.report(K_POOL_TWICE + ":concurrent-users", "overlapping codec / Formatter uses after the steps %s did not all get their own "
                           "data back: %s" % (",".join(c["steps"][:-1])[:200], out),
                           {"case": c, "observation": {"outs": o["outs"], "excl": o["excl"]}, "failing_input": True, "statistical": True})
    if problems:
        ctx.report("structure:pool-users-free-exactly-once",
                   "users of the coder pools: " + " | ".join(problems)[:1500] + ". C14_pool_exclusive needs every user to free exactly what it "
                   "holds, once" + (" (witness on the implementation: see %s)" % K_POOL_TWICE if found else ""),
                   {"failing_input": False, "correspondence": "go/ast walk over every Get*/Free* site vs Pool.disciplined", "problems": problems})
    ctx.note("pool_user_structure", problems or "every Get* is followed at once by one deferred Free* of the same variable; nothing else frees")


def hook_present():
    p = os.path.join(hv.REPO, "io", "verif_on.go")
    try:
        return "VerifYieldHook" in open(p).read()
    except OSError:
        return False


def build_hooked():
    hd = os.path.join(hv.V, "harness")
    out = os.path.join(hv.HBIN, "hv-c14hook")
    with hv.Lock("go" + hv.ALT):
        cmd = ["go", "build", "-tags", "verif c14hook", "-o", out]
        cmd[2:2] = hv.cover_flags()
        if hv.ALT:
            cmd.append("-modfile=" + os.path.join(hv.BUILD, "alt-" + hv.ALT, "go.mod"))
        rc, o, e = hv.sh(cmd + ["./cmd/c14"], cwd=hd, env=hv.GOENV, timeout=1800)
        if rc != 0:
            raise hv.EnvError("hooked harness c14 does not build: " + e[-3000:])
    return out


FORCED = {   # shape -> (slot of goroutine 0, slot of goroutine 1, model schedule, the same with the lock)
    "enclosing": (1, 0, "0x2 1* 0*", "0x2 1* 0* 1*"),
    # goroutine 0 = Marshal(*TA) runs until TF's placeholder is published: CGet TA, CNew TA, CHandler TB (miss), CGet TB,
    # CNew TB, CHandler TD (miss), CGet TD, CNew TD, CHandler TD (hit), CAssign TD, CPublish TD, CAssign TB, CPublish TB,
    # CHandler TC (miss), CGet TC, CNew TC, CHandler TA (hit: placeholder), CAssign TC, CPublish TC, CHandler TF (miss),
    # CGet TF, CNew TF = 22 steps
    "mutual": (4, 2, "0x22 1* 0*", "0x22 1* 0* 1*"),
    # both publish their placeholder for TD (CGet miss, CNew), then goroutine 0 runs, then goroutine 1
    "same": (5, 5, "0x2 1x2 0* 1*", "0x2 1x2 0* 1* 0*"),
}


def forced_one(ctx, case, report=True):
    """one forced schedule on the real code (own process) + the single-goroutine outputs (another process) + the same
    schedule through the LOCKED Registry.step.  Returns (status, disagreement or None, number of oracle failures)."""
    shape, simple, g = case["shape"], case["simple"], case["group"]
    s0, s1, _sched, sched_locked = FORCED[shape]
    solo_case = {"id": case["id"] + 10000, "kind": "race", "group": g, "seed": case["seed"], "conc": False,
                 "ops": [{"op": "marshal", "slot": s0, "simple": simple}, {"op": "marshal", "slot": s1, "simple": simple}]}
    rc, o, err = run_one_process("c14hook", case)
    rc2, solo, err2 = run_one_process("c14hook", solo_case)
    if o is None or solo is None:
        ctx.report("harness-crash:forced", "executor died in a forced schedule: " + (err + err2)[-300:],
                   {"case": case, "failing_input": True})
        return "crash", None, 1
    if o.get("note"):
        return "inconclusive:" + o["note"][:40], None, 0
    line = "reg 1 %s ; %s %s ; %s" % (GROUP_TENV, SLOT_MODEL[s0], SLOT_MODEL[s1], sched_locked)
    m = hv.run_model("c14", [line])[0]
    mouts = [x.strip().split(" ") for x in m.split(" ; ")[0].split(" | ")]
    want_tokens = [[TYPE_LETTER[int(t[1:])] if t[0] == "F" else "?" for t in toks if t] for toks in mouts]
    seen_tokens = [parse_structs(o["outs"][0]), parse_structs(o["outs"][1])]
    dis = None
    if seen_tokens != want_tokens or not o.get("blocked"):
        dis = (case, o, 0, json.dumps(want_tokens) + " reader-blocked=True",
               json.dumps(seen_tokens) + " reader-blocked=%s" % bool(o.get("blocked")))
    fails = 0
    for k in (0, 1):
        if o["outs"][k] != solo["outs"][k] or o["errs"][k] != solo["errs"][k]:
            fails += 1
            if report:
                report_race(ctx, dict(case, ops=solo_case["ops"]), k, solo_case["ops"][k], solo, o, forced=True,
                            extra={"model": m, "replay_needs_hook": True})
    if len(ctx.cov["samples"]) < 5:
        ctx.sample({"forced": case, "structs_written": seen_tokens, "reader_blocked": bool(o.get("blocked")), "model": m})
    return "ok", dis, fails


def run_forced(ctx):
    r = ctx.rng
    n = 6 if ctx.tier == "quick" else 24
    disagreements = []
    for i in range(n):
        shape = ("enclosing", "mutual", "same")[i % 3]
        case = {"id": 500000 + i, "kind": "forced", "group": r.randrange(N_GROUPS), "seed": 7, "shape": shape,
                "simple": (i // 3) % 2 == 0}
        status, dis, fails = forced_one(ctx, case)
        if status != "ok":
            ctx.bump("forced_inconclusive", status)
            continue
        ctx.count_case("forced|%s|%d|%s" % (shape, case["group"], case["simple"]), nontrivial=True)
        ctx.bump("forced_shape", shape)
        if dis:
            disagreements.append(dis)
    return disagreements


# ------------------------------------------------------------------------------ corpus
def corpus_cases(ctx, hook):
    """minimised histories / schedules of the repaired defects (corpus/C14-*.json): run first, must pass"""
    import glob
    n = 0
    for path in sorted(glob.glob(os.path.join(hv.V, "corpus", "C14-*.json"))):
        r = json.load(open(path))
        name = os.path.basename(path)
        for case in r["cases"]:
            n += 1
            if case["kind"] == "forced":
                if not hook:
                    ctx.bump("corpus_inconclusive", name + ":no-hook")
                    continue
                status, dis, fails = forced_one(ctx, dict(case, id=700000 + case["id"]), report=False)
                if status != "ok":
                    ctx.bump("corpus_inconclusive", name + ":" + status)
                elif fails or dis:
                    ctx.report("corpus:" + name, "%s -- fixed by %s, fails again: forced schedule '%s': %s"
                               % (r["key"], r["fixed_by"], case["shape"], (dis[4] if dis else "output differs from the sequential run")[:300]),
                               {"case": case, "failing_input": True, "corpus": name, "coq_witness": r.get("coq_witness")})
                continue
            why, tries = None, 0
            while True:
                tries += 1
                rc, obs, err = hv.run_harness("c14", [case])
                if rc != 0 or not obs:
                    why = "executor died: " + err[-300:]
                    break
                o = obs[0]
                reused = all(so["got"] >= 0 for s, so in list(zip(case["sessions"], o["sessions"]))[1:] if s["get"] == "pool")
                if r.get("needs_reuse") and not reused and tries < 6:
                    continue            # the real pool handed out a new coder: nothing was tested
                if r.get("needs_reuse") and not reused:
                    ctx.bump("corpus_inconclusive", name + ":pool-did-not-reuse")
                    break
                sub = hv.Ctx(ctx.pid, ctx.tier, ctx.seed)
                sub.known = []
                c2 = dict(case, flavour="corpus")
                ml = hv.run_model("c14", [seq_model_line(case["kind"], c2, o, FIXED_FLAGS)])
                dis = (eval_eseq if case["kind"] == "eseq" else eval_dseq)(sub, [c2], {case["id"]: o}, ml)
                if sub.violations:
                    why = "; ".join(v[1][:300] for v in sub.violations)
                elif dis:
                    why = "the repaired model gives [%s], observed [%s]" % (dis[0][3][:200], dis[0][4][:200])
                break
            if why:
                ctx.report("corpus:" + name, "%s -- fixed by %s, fails again: %s" % (r["key"], r["fixed_by"], why),
                           {"case": case, "failing_input": True, "corpus": name, "coq_witness": r.get("coq_witness")})
    ctx.note("corpus_cases_run_first", n)


# ------------------------------------------------------------------------------ driver
def run_cases(ctx, exe, cases, what):
    byid, crashes = hv.run_harness_resilient(exe, cases, timeout=1200)
    for c, rc, err in crashes:
        ctx.report("harness-crash:" + what, "executor died (rc=%d) on %s: %s" % (rc, json.dumps(c)[:300], err[-400:]),
                   {"case": c, "stderr": err[-2000:], "failing_input": True})
    return [c for c in cases if c["id"] in byid], byid


def run(ctx):
    ctx.level = "proof"
    ctx.assumptions += [
        "registry LTS: one sync.Map method, one read or write of structEncoder.fields/metadata, one RWMutex operation are atomic "
        "steps of a sequentially consistent machine; data-race freedom in the sense of the Go memory model is NOT expressible in "
        "it (a read of fields that races with its assignment is a data race even when the LTS shows the right value)",
        "-race builds and the multi-goroutine runs over fresh types only SEARCH for witnesses; their silence is not evidence",
        "serialization of one value is a parameter of the pooled-coder theorems (they hold for every serializer); the "
        "correspondence run instantiates it with a byte-exact codec for nil/int/ASCII string/[]interface{}/*struct with "
        "interface{} fields (decoder: interface{} destinations)",
        "io.Writers never fail; streaming decode is independent of how reads split the input (C05)",
        "ownership model: which buffer primitive each (destination type, tag) cell uses is transcribed by hand from "
        "io/*_decoder.go and validated cell by cell by the scribble run",
    ]
    ctx.prove()
    hv.build_harness("c14")
    hv.build_modelrun("c14")
    hook = hook_present()
    ctx.note("yield_hook_in_tree", hook)
    variant, _detected = detect_variant()
    ctx.note("variant_of_tree_under_test", variant)
    flags = FIXED_FLAGS
    for name, present in sorted(variant.items()):
        if not present:
            # the theorems are about the repaired tree: without this repair they do not describe the tree under test
            ctx.report("repair-missing:" + name,
                       "the tree under test does not carry the repair '%s' (%s): Props/C14.v part I is stated for the repaired variant; "
                       "the behaviour of this tree is the one of part II (historical)" % (name, REPAIRS[name]),
                       {"failing_input": False, "variant": variant, "correspondence": "source inspection of io/ (detect_variant)"})
    quick = ctx.tier == "quick"
    disagreements = []
    if hook:
        build_hooked()
    corpus_cases(ctx, hook)
    structure = decoder_lock_structure()
    ctx.note("decoder_lock_structure", structure or "write lock spans publication and assignment; decodeField reads under RLock")
    enc_structure = encoder_lock_structure()
    ctx.note("encoder_lock_structure", enc_structure or "write lock spans publication and assignment; Write reads under RLock")

    cases = gen_eseq(ctx, 700 if quick else 6000)
    cases, byid = run_cases(ctx, "c14", cases, "eseq")
    ml = hv.run_model("c14", [seq_model_line("eseq", c, byid[c["id"]], flags) for c in cases])
    disagreements += [("eseq",) + d for d in eval_eseq(ctx, cases, byid, ml)]

    cases = gen_dseq(ctx, 700 if quick else 6000)
    cases, byid = run_cases(ctx, "c14", cases, "dseq")
    ml = hv.run_model("c14", [seq_model_line("dseq", c, byid[c["id"]], flags) for c in cases])
    disagreements += [("dseq",) + d for d in eval_dseq(ctx, cases, byid, ml)]

    cases = gen_scribble(ctx)
    cases, byid = run_cases(ctx, "c14", cases, "scribble")
    ml = hv.run_model("c14", [scribble_model_line(c) for c in cases])
    disagreements += [("scribble",) + d for d in eval_scribble(ctx, cases, byid, ml)]

    run_pool_users(ctx)
    run_races(ctx, "c14")
    run_decoder_first_use(ctx, "c14")
    if not quick:
        try:
            hv.build_harness("c14", race=True)
            r = ctx.rng
            reports = 0
            for i in range(12):
                case = {"id": 600000 + i, "kind": "race", "group": r.randrange(N_GROUPS), "seed": 3, "conc": True,
                        "ops": race_ops(r, 16)}
                rc, o, err = run_one_process("c14", case, race=True, timeout=300)
                if "DATA RACE" in err:
                    reports += 1
                    if reports == 1:
                        ctx.note("race_detector_first_report", err[err.find("WARNING: DATA RACE"):][:1500])
            ctx.note("race_detector_runs", 12)
            ctx.note("race_detector_reports", reports)
        except hv.EnvError as e:
            ctx.note("race_detector", "not available: " + str(e)[:200])

    if hook:
        disagreements += [("forced",) + d for d in run_forced(ctx)]
    else:
        ctx.note("forced_note", "the tree under test has no yield hook in io/ (hooks/c14-io.patch, /repo 5f1121c): the three schedules "
                 "that broke the unlocked registry are not forced on the implementation; only the statistical race search looks at it")
    if hook and decoder_hook_present():
        disagreements += [("forceddec",) + d for d in run_forced_decoder(ctx)]
    else:
        ctx.note("forceddec_note", "no yield point in newNamedStructDecoder (hooks/c14-io-decoder.patch): the decoder-side schedule is "
                 "not forced; structural inspection and the statistical race family cover it")

    ctx.note("rule", "eseq/dseq: seeded random sessions (2-6 uses, 2-9 operations each) over pooled and user-held coders, modes, "
             "failing values/inputs, explicit Reset/ResetBuffer/Writer/options, plus the directed histories of the refutation theorems; "
             "non-trivial = at least one use received a previously released coder from the real pool. scribble: exhaustive "
             "(destination type x wire form) cells x {simple, ref} x {slice, Formatter, reader, 1-byte reader, 7-byte reader}; "
             "non-trivial = the decoded value holds byte data. viewapi: every safe and documented-unsafe buffer entry point. "
             "poolusers: every codec / Formatter entry point through all its exits in the catalogue order and in seeded random orders, "
             "pool exclusivity checked after every step, then overlapping uses. race: fresh-type scenarios, one process each. decrace: decoder-side first use of wide (150-field) fresh types, A into WT while "
             "B into *WT / WO{In WT; P *WT} / []WT, one round per family, 12-20 families per process. forced / forceddec (with the hooks): "
             "the three encoder schedules and the decoder schedule. distinct by full case text")
    if structure:
        found = any(v[0] == K_DEC_PUBLISH for v in ctx.violations)
        ctx.report("structure:decoder-lock-does-not-span-publication",
                   "io/struct_decoder.go: " + "; ".join(structure) + ". C14_registry_linearizable is proved for the LOCKED machine (reader "
                   "blocks while the coder is published and unassigned); with this critical section the code is the UNLOCKED machine, refuted "
                   "by old_registry_refuted_enclosing" + (" (witness on the implementation: see %s)" % K_DEC_PUBLISH if found else ""),
                   {"failing_input": False, "correspondence": "structure of newNamedStructDecoder / decodeField vs Registry.step locked = true",
                    "problems": structure})
    if enc_structure:
        found = any(v[0] == K_PUBLISH for v in ctx.violations)
        ctx.report("structure:encoder-lock-does-not-span-publication",
                   "io/struct_encoder.go: " + "; ".join(enc_structure) + ". C14_registry_linearizable is proved for the LOCKED machine; with this "
                   "critical section the code is the UNLOCKED machine of Props/C14.v part II (old_registry_refuted_enclosing / _mutual / "
                   "_same_type)" + (" (witness on the implementation: see %s)" % K_PUBLISH if found else ""),
                   {"failing_input": False, "correspondence": "structure of newNamedStructEncoder / structEncoder.Write vs Registry.step locked = true",
                    "problems": enc_structure})
    ctx.note("exhaustive", False)
    ctx.note("disagreeing_cases", len(disagreements))
    ctx.note("traces_validated_against_impl", ctx.cov["evaluations"] - len(disagreements))
    if disagreements and not ctx.violations:
        kind, c, o, k, model, seen = disagreements[0]
        ctx.report("correspondence:" + kind,
                   "Model/%s no longer matches the implementation (theorems C14_* not transferred): session %d: model [%s] observed [%s]"
                   % ("Registry.v" if kind == "forced" else "Pool.v", k, model[:300], seen[:300]),
                   {"case": c, "observation": o, "model": model, "failing_input": False,
                    "correspondence": {"eseq": "Pool.enc_step vs io.Encoder/io.GetEncoder/io.FreeEncoder",
                                       "dseq": "Pool.dec_step vs io.Decoder/io.GetDecoder/io.FreeDecoder",
                                       "scribble": "Pool.own_decode / view_api_own vs the aliasing observed after overwriting the input",
                                       "forced": "Registry.step vs the struct writes of io.Marshal under the forced schedule",
                                       "forceddec": "locked Registry.step (reader blocks) vs io.Unmarshal under the forced decoder schedule"}[kind],
                    "disagreeing_cases": len(disagreements)})
    elif disagreements:
        kind, c, o, k, model, seen = disagreements[0]
        ctx.note("first_disagreement", {"kind": kind, "case_id": c["id"], "model": model[:300], "observed": seen[:300]})


def replay(ctx, path):
    r = json.load(open(path))
    case = r["case"]
    hv.build_harness("c14")
    exe = "c14"
    if case["kind"] == "forced":
        if not hook_present():
            print("the tree under test has no yield hook; apply hooks/c14-io.patch")
            return 3
        build_hooked()
        exe = "c14hook"
    rc, obs, err = hv.run_harness(exe, [case])
    print(json.dumps(obs)[:4000])
    if not obs:
        print("harness crashed:", err[-500:])
        return 1
    o = obs[0]
    bad = False
    if case["kind"] in ("eseq", "dseq"):
        # the same oracles as the run (they do not use the model's answer)
        sub = hv.Ctx(ctx.pid, ctx.tier, ctx.seed)
        sub.known = []
        ml = [""]          # the model's answer only feeds the correspondence, not the oracles
        case.setdefault("flavour", "replay")
        (eval_eseq if case["kind"] == "eseq" else eval_dseq)(sub, [case], {case["id"]: o}, ml)
        for key, what, _ in sub.violations:
            print("oracle fails [%s]: %s" % (key, what[:400]))
            bad = True
    elif case["kind"] in ("scribble", "viewapi"):
        changed = o.get("before") != o.get("after") or o.get("err_before") != o.get("err_after")
        print("changed after scribble:", changed)
        bad = changed and not (case["kind"] == "viewapi" and case["api"] in VIEW_APIS)
    elif case["kind"] in ("race", "forced"):
        ops = case.get("ops") or r.get("case", {}).get("ops")
        solo_case = dict(case, kind="race", conc=False, ops=ops)
        rc2, obs2, err2 = hv.run_harness(exe, [solo_case])
        if obs2:
            for k in range(len(obs2[0]["outs"])):
                if k < len(o["outs"]) and o["outs"][k] != obs2[0]["outs"][k]:
                    print("goroutine", k, "wrote", short_hex(o["outs"][k]), "alone:", short_hex(obs2[0]["outs"][k]))
                    bad = True
        if case["kind"] == "race":
            print("(statistical scenario: a clean replay does not refute the recorded observation)")
    print("property oracle:", "FAILS" if bad else "holds on this run")
    return 1 if bad else 0
