"""C07: RPC codec round trip - the service decodes what the client encoded, and back.

Proof: Props/C07.v (request / response round trip for every name, argument list, header list and option
pair, scope alignment, JSON-RPC envelope; value-level premises are C01's round-trip statement).
Tie: the real client codec encodes, the real service codec decodes against a real Service whose method
has the case's signature (built with reflect.FuncOf), the real service codec encodes the outcome
(directly and through Service.Handle), the real client codec decodes.  Compared with the extracted model
(Model/Codec.v): request and response BYTES, decoded name / method / headers / argument and result values,
error texts; the model's abstract io decoder is instantiated per case with the plain io round trip of each
value into the type the property expects (computed here, independently of the model).  The property's own
oracle (same method, same headers minus the reserved flag, values equal by the normalising equality,
same error message) is evaluated on every case."""
import itertools
import json
import os
import re

import hv
import iogen
from iogen import T, Slice, Array, Map, Ptr, Reg, IFACE, hx

STACK = b"STACK"


# ------------------------------------------------------------------------------------------ generation

class VGen(iogen.Gen):
    """iogen values restricted to what C01 round-trips cleanly (C01's own findings stay C01's):
    strings are valid UTF-8 unless asked otherwise."""
    GOOD = [b"", b"a", b"ab", "é".encode(), "中".encode(), "😀".encode(), "a😀".encode(), "中文字符".encode(),
            b"hello world", b'"', b'a"b;{}', b"0", b's2"xx"', "é😀中a".encode(), b"x" * 40, b"\x00", b"\x7f",
            "\U00010000".encode(), b"id", b"name", b"hello", b"key", b"value", b"simple", b"timeout", b"true"]

    def rand_str(self):
        r = self.rng
        if r.random() < 0.7:
            return r.choice(self.GOOD)
        n = r.choice([1, 2, 3, 5, 8])
        return "".join(r.choice(["a", "b", "z", "0", " ", "é", "中", "😀", "\n", '"']) for _ in range(n)).encode()

    def rand_dyn_type(self, depth):
        r = self.rng
        c = r.random()
        if self.json_mode:
            return T(r.choice(["bool", "int", "float64", "string", "string"])) if c < 0.8 else \
                r.choice([Slice(T("int")), Slice(T("string")), Map(T("string"), T("int"))])
        if c < 0.6 or depth > 2:
            return T(r.choice(["bool", "int", "int8", "int16", "int32", "uint8", "uint16", "float64", "string", "string"]))
        if c < 0.75:
            return Slice(r.choice([T("int"), T("string"), IFACE, T("float64")]))
        if c < 0.85:
            return Map(T("string"), r.choice([IFACE, T("int"), T("string")]))
        return r.choice([T("time"), T("uuid"), Ptr(Reg("Inner")), Reg("Inner"), Ptr(Reg("One"))])

    json_mode = False

    def rand_scalar(self, k):
        if self.json_mode:
            r = self.rng
            # JSON-representable: finite floats, integers that a float64 holds exactly
            if k in ("float64", "float32"):
                f = r.choice([0.0, 1.5, -2.25, 100.0, 3.125, 1e10, -0.5, float(r.randint(-1000, 1000))])
                if k == "float64" and r.random() < 0.5:
                    # every finite float64 has a shortest JSON text that parses back to itself: values that need
                    # many digits, tiny and huge magnitudes (a codec configured to cut digits shows here)
                    f = r.choice([3.141592653589793, 1.0000001, 1e-7, 0.1, 1.0 / 3.0, -2.718281828459045,
                                  2.2250738585072014e-308, 1.7976931348623157e308, 5e-324, 123456.7890123,
                                  r.uniform(-1, 1), r.uniform(-1e6, 1e6), r.random() * 10.0 ** r.randint(-12, 12)])
                return iogen.f64bits(f) if k == "float64" else iogen.f32bits(f)
            if k in iogen.INTS:
                lo, hi = iogen.RANGE[k]
                return str(max(lo, min(hi, r.choice([0, 1, -1, 9, 10, 127, 255, 65535, 2**31 - 1, -2**31, 2**53, -2**53,
                                                      r.randint(-10**6, 10**6)]))))
        return iogen.Gen.rand_scalar(self, k)

    def rand_time(self):
        t = iogen.Gen.rand_time(self)
        if "unix" in t and not (-62135596800 <= int(t["unix"]) <= 253402300799):
            t["unix"] = "1600000000"
        return t


PALETTE = [T("int"), T("int8"), T("int16"), T("int32"), T("int64"), T("uint"), T("uint8"), T("uint16"), T("uint32"),
           T("uint64"), T("float32"), T("float64"), T("bool"), T("string"), T("string"), T("string"),
           Slice(T("int")), Slice(T("string")), Slice(T("uint8")), Slice(IFACE), Map(T("string"), T("int")),
           Map(T("string"), IFACE), Ptr(Reg("Inner")), Reg("Inner"), Ptr(Reg("One")), Slice(Reg("Inner")),
           Map(T("string"), Ptr(Reg("Inner"))), T("time"), Ptr(T("time")), T("uuid"), Ptr(T("bigint")),
           Reg("Strs"), Array(2, T("int")), Slice(Slice(T("int"))), Slice(Slice(T("uint8"))), Reg("MyInt"),
           Reg("MyStr"), IFACE, IFACE, Ptr(T("int")), Ptr(T("string")), Reg("Outer"), Ptr(Reg("Tree"))]

JSON_PALETTE = [T("int"), T("int32"), T("int64"), T("float64"), T("bool"), T("string"), T("string"),
                Slice(T("int")), Slice(T("string")), Map(T("string"), T("int")), Reg("Inner"), Ptr(Reg("Inner")),
                Slice(Reg("Inner")), IFACE, Slice(T("uint8")), Reg("MyBytes")]

NAMES = [b"add", b"Add", b"ADD", b"hello_World", "Ünïcode".encode(), "方法".encode(), b"a", b"Z", "İx".encode(),
         "ǅ".encode(), b"user_getName", b"simple", b"timeout", b"x" * 60, "名前😀".encode(), b"with space", b"q\"uote",
         b"hello", b"key", b"id"]


def respell(rng, name):
    """another spelling of the same name (the service matches case-insensitively).  Only characters with a
    one-to-one simple case mapping are respelled, so that every Unicode library agrees the spellings are equal
    ignoring case; names with special-casing characters are used as they are."""
    try:
        s = name.decode()
    except UnicodeDecodeError:
        return name
    if not all(len(ch.lower()) == 1 and len(ch.upper()) == 1 and ch.lower().upper().lower() == ch.lower() and
               ch.upper().lower() == ch.lower() for ch in s):
        return name
    c = rng.random()
    cand = s.upper() if c < 0.3 else s.lower() if c < 0.6 else s.swapcase() if c < 0.8 else s
    if cand.lower() != s.lower() or len(cand) != len(s):
        return name
    return cand.encode()


def opt_combo(k):
    """deterministic walk through all 120 decoder option combinations"""
    long_, k = k % 5, k // 5
    real, k = k % 3, k // 3
    map_, k = k % 2, k // 2
    struct, k = k % 2, k // 2
    lst = k % 2
    return {"long": long_, "real": real, "map": map_, "struct": struct, "list": lst}


class CaseGen:
    def __init__(self, ctx, reg):
        self.ctx = ctx
        self.rng = ctx.rng
        self.g = VGen(ctx.rng, reg)
        self.n = 0

    def tidx(self, types, td):
        key = json.dumps(td, sort_keys=True)
        for i, t in enumerate(types):
            if json.dumps(t, sort_keys=True) == key:
                return i
        types.append(td)
        return len(types) - 1

    def value_for(self, td, pool):
        if td["k"] == "iface":
            return {"t": IFACE, "v": self.g.value(IFACE, 1, pool)}
        return {"t": td, "v": self.g.value(td, 0, pool)}

    def options(self, json_mode=False):
        self.n += 1
        k = self.n
        co = dict(opt_combo(k * 7 + 1), simple=bool(k & 1))
        so = dict(opt_combo(k * 11 + 3), simple=bool(k & 2), debug=bool(k & 4))
        if self.rng.random() < 0.35:      # the defaults on both sides are the common configuration
            co.update(opt_combo(0))
            so.update(opt_combo(0))
        return co, so

    def make(self, family, palette=PALETTE, codec="hprose", **kw):
        r = self.rng
        self.g.json_mode = codec == "jsonrpc"
        types = []
        pool = {"pool": {}, "cycles": False}
        nparams = kw.get("nparams", r.choice([0, 1, 1, 2, 2, 3, 4]))
        variadic = kw.get("variadic", r.random() < 0.2)
        missing = kw.get("missing", r.random() < 0.1)
        ptds = [r.choice(palette) for _ in range(nparams)]
        if kw.get("same_ptr") and nparams >= 2:
            ptds[1] = ptds[0] = r.choice([Ptr(Reg("Inner")), Ptr(Reg("One")), Ptr(T("time"))])
        if kw.get("strings") and nparams >= 1:
            ptds = [T("string") if r.random() < 0.7 else t for t in ptds]
        params = [self.tidx(types, t) for t in ptds]
        velem = None
        if variadic and not missing:
            e = r.choice([t for t in palette if t["k"] in ("int", "string", "iface", "reg", "ptr", "float64")])
            velem = self.tidx(types, e)
            params.append(self.tidx(types, Slice(e)))
        # how many arguments: as many as parameters, fewer, more
        arity = kw.get("arity", r.choice(["eq", "eq", "eq", "eq", "fewer", "more"]))
        fixed = len(params) - (1 if velem is not None else 0)
        if missing:
            nargs = r.choice([0, 1, 2, 3])
        elif velem is not None:
            nargs = {"eq": fixed + r.choice([0, 1, 2, 3]), "fewer": max(0, fixed - 1), "more": fixed + 4}[arity]
        else:
            nargs = {"eq": fixed, "fewer": max(0, fixed - r.choice([1, 2])), "more": fixed + r.choice([1, 2])}[arity]
        want = []
        for i in range(nargs):
            if missing:
                want.append(-1)
            elif velem is not None:
                want.append(params[i] if i < fixed else velem)
            else:
                want.append(params[i] if i < len(params) else -1)
        shared = r.choice(VGen.GOOD[2:])          # a string that may recur across segments
        args = []
        for i, w in enumerate(want):
            td = IFACE if w < 0 else types[w]
            if td["k"] == "string" and r.random() < 0.5:
                args.append({"t": td, "v": hx(shared)})
            elif td["k"] == "iface" and r.random() < 0.3:
                args.append({"t": IFACE, "v": {"t": T("string"), "v": hx(shared)}})
            else:
                args.append(self.value_for(td, pool))
        # name: sometimes the shared string itself (a reference across the name and argument scopes must not exist)
        name = kw.get("name")
        if name is None:
            name = shared if (r.random() < 0.25 and len(shared) > 0) else r.choice(NAMES)
        if codec == "jsonrpc" and not name:
            name = b"m"
        call = kw.get("call", respell(r, name))
        # results
        kind = kw.get("kind", r.choice(["values", "values", "values", "values", "error", "panic"]))
        nres = kw.get("nres", r.choice([0, 1, 1, 1, 2, 3]))
        rtds = [r.choice([t for t in palette if t["k"] != "iface"] or palette) for _ in range(nres)]
        if kw.get("errval"):
            rtds = [IFACE]
        results = [self.tidx(types, t) if t["k"] != "iface" else -1 for t in rtds]
        values = []
        if kind == "values":
            for t in rtds:
                if kw.get("errval"):
                    values.append({"t": IFACE, "v": {"t": T("error"), "v": hx(b"an error value")}})
                elif t["k"] == "string" and r.random() < 0.4:
                    values.append({"t": t, "v": hx(shared)})
                else:
                    values.append(self.value_for(t, pool))
        msg = kw.get("msg", r.choice([b"boom", b"", b"a", b"timeout", "错误 😀".encode(), b"x" * 100, b"line1\r\nline2",
                                      b"boom" if codec == "jsonrpc" else b"\xff\xfe", shared]))
        rmode = kw.get("rmode", r.choice(["match", "match", "match", "default", "none", "pad", "trunc"]))
        rt_default = False
        if rmode == "default":
            rtypes, rt_default = None, True
        elif rmode == "none":
            rtypes = []
        elif rmode == "pad" and nres >= 2:
            rtypes = results + [self.tidx(types, r.choice([T("int"), T("string"), Ptr(Reg("Inner"))]))]
        elif rmode == "trunc" and nres >= 3:
            rtypes = results[:-1]
        else:
            rtypes = list(results)
        # headers
        nh = kw.get("nhdrs", r.choice([0, 0, 1, 1, 2, 3]))
        keys = []
        for _ in range(nh):
            k = r.choice([shared, b"k", b"trace-id", "键".encode(), b"x-user", name, b"n"])
            if k and k not in keys and k != b"simple":
                keys.append(k)
        hval = lambda: self.value_for(IFACE, pool) if r.random() < 0.6 else {"t": IFACE, "v": {"t": T("string"), "v": hx(shared)}}
        hdrs = [{"k": hx(k), "v": hval()} for k in keys]
        rkeys = [k for k in [b"rk", shared, b"server"] if k and k != b"simple" and r.random() < 0.25]
        rhdrs = [{"k": hx(k), "v": hval()} for k in rkeys]
        co, so = self.options()
        methods = [{"id": 1, "name": hx(name), "missing": False, "ctx": kw.get("ctx", r.random() < 0.3),
                    "params": params, "variadic": velem is not None, "velem": velem, "results": results, "err": True}]
        if missing:
            # the target is the missing-method handler: nothing is registered under the called name
            methods = [{"id": 9, "name": hx(b"*"), "missing": True, "ctx": r.random() < 0.5, "params": [], "variadic": False,
                        "velem": None, "results": [], "err": True},
                       {"id": 2, "name": hx(name + b"_other"), "missing": False, "ctx": False, "params": [], "variadic": False,
                        "velem": None, "results": [], "err": True}]
        elif r.random() < 0.3:
            methods.append({"id": 9, "name": hx(b"*"), "missing": True, "ctx": False, "params": [], "variadic": False,
                            "velem": None, "results": [], "err": True})
        if kw.get("nomethod"):
            methods = [{"id": 2, "name": hx(name + b"_other"), "missing": False, "ctx": False, "params": [], "variadic": False,
                        "velem": None, "results": [], "err": True}]
        return {"family": family, "codec": codec, "copts": co, "sopts": so, "types": types, "methods": methods,
                "call": hx(call), "args": args, "want": want, "hdrs": hdrs, "rhdrs": rhdrs,
                "res": {"kind": kind, "values": values, "msg": hx(msg)}, "rtypes": rtypes, "rt_default": rt_default}


def gen_cases(ctx, reg):
    cg = CaseGen(ctx, reg)
    quick = ctx.tier == "quick"
    cases = corpus_cases("C07") + option_cases()
    mul = 1 if quick else 8
    for _ in range(650 * mul):
        cases.append(cg.make("random"))
    for name in NAMES + [b"", b"\xff\xfe", b"\xc0\x80"]:
        for call in {name, respell(ctx.rng, name), respell(ctx.rng, name)}:
            cases.append(cg.make("names", name=name, call=call, missing=False, nomethod=(name == b"")))
    for _ in range(60 * mul):
        cases.append(cg.make("strings-across-segments", strings=True, nparams=ctx.rng.choice([2, 3, 4]), variadic=False,
                             missing=False, arity="eq", nhdrs=2))
        cases.append(cg.make("pointer-across-arguments", same_ptr=True, nparams=ctx.rng.choice([2, 3]), variadic=False,
                             missing=False, arity="eq"))
    for arity in ("fewer", "more", "eq"):
        for _ in range(40 * mul):
            cases.append(cg.make("arity-" + arity, arity=arity, missing=False, variadic=False, nparams=ctx.rng.choice([1, 2, 3])))
            cases.append(cg.make("variadic-" + arity, arity=arity, missing=False, variadic=True))
    for _ in range(40 * mul):
        cases.append(cg.make("missing-method", missing=True))
        cases.append(cg.make("no-method", nomethod=True, missing=False))
    for kind in ("values", "error", "panic"):
        for nres in (0, 1, 2, 3):
            for rmode in ("match", "default", "none", "pad", "trunc"):
                for _ in range(3 * mul):
                    cases.append(cg.make("results", kind=kind, nres=nres, rmode=rmode, missing=False))
    for _ in range(10 * mul):
        cases.append(cg.make("error-value-result", errval=True, kind="values", nres=1, rmode=ctx.rng.choice(["match", "default"]),
                             missing=False))
    for msg in (b"", b"a", b"timeout", b"Timeout", b"\xff", b"\xc0\x80", "中".encode(), b"e\r\nf"):
        for kind in ("error", "panic"):
            cases.append(cg.make("messages", kind=kind, msg=msg, missing=False))
    # JSON-RPC
    for _ in range(180 * mul):
        cases.append(cg.make("jsonrpc", palette=JSON_PALETTE, codec="jsonrpc",
                             arity=ctx.rng.choice(["eq", "eq", "eq", "fewer"])))
    for _ in range(25 * mul):
        cases.append(cg.make("jsonrpc-surplus", palette=JSON_PALETTE, codec="jsonrpc", arity="more", variadic=False,
                             missing=False, nparams=ctx.rng.choice([0, 1, 2])))
    for i, c in enumerate(cases):
        c["id"] = i + 1
    return cases


def option_cases():
    """every codec option, on either side, with values that make it observable: a long, a real, a list, a map and a
    struct decoded into interface{} (at top level and nested in a map)"""
    S = T("string")
    inner = {"t": Reg("Inner"), "v": {"X": "1", "Y": hx(b"y")}}
    parts = [("n", {"t": T("int64"), "v": str(2 ** 40)}), ("f", {"t": T("float64"), "v": iogen.f64bits(1.5)}),
             ("l", {"t": Slice(T("int")), "v": ["1", "2"]}), ("m", {"t": Map(S, T("int")), "v": [[hx(b"a"), "1"]]}),
             ("s", inner), ("u", {"t": T("uint32"), "v": str(2 ** 31 + 5)})]
    composite = {"t": Map(S, IFACE), "v": [[hx(k.encode()), v] for k, v in parts]}
    tops = [v for _, v in parts] + [composite]
    out = []
    fields = [("long", range(5)), ("real", range(3)), ("map", range(2)), ("struct", range(2)), ("list", range(2))]
    for side in ("copts", "sopts"):
        for field, values in fields:
            for val in values:
                for simple in (False, True):
                    co = dict(opt_combo(0), simple=simple)
                    so = dict(opt_combo(0), simple=simple, debug=False)
                    (co if side == "copts" else so)[field] = val
                    n = len(tops)
                    c = {"family": "codec-options", "codec": "hprose", "copts": co, "sopts": so, "types": [IFACE],
                         "methods": [{"id": 1, "name": hx(b"opt"), "missing": False, "ctx": False, "params": [0] * n,
                                      "variadic": False, "velem": None, "results": [-1] * n, "err": True}],
                         "call": hx(b"opt"), "args": [{"t": IFACE, "v": json.loads(json.dumps(v))} for v in tops],
                         "want": [0] * n,
                         "hdrs": [{"k": hx(b"h"), "v": {"t": IFACE, "v": json.loads(json.dumps(composite))}}],
                         "rhdrs": [{"k": hx(b"rh"), "v": {"t": IFACE, "v": json.loads(json.dumps(composite))}}],
                         "res": {"kind": "values", "values": [{"t": IFACE, "v": json.loads(json.dumps(v))} for v in tops], "msg": ""},
                         "rtypes": [-1] * n, "rt_default": False}
                    out.append(c)
                    # one declared interface{} (raw Invoke): the whole result list is one value
                    c2 = json.loads(json.dumps(c))
                    c2["rtypes"], c2["rt_default"] = None, True
                    out.append(c2)
    return out


def corpus_cases(pid):
    """minimised cases of defects found earlier: repaired ones (they must pass now) and known findings (they are
    reported under their key on every run); they run first, so a replay file shows the minimal case"""
    out = []
    d = os.path.join(hv.V, "corpus")
    for f in sorted(os.listdir(d)):
        if f.startswith(pid + "-") and f.endswith(".json"):
            r = json.load(open(os.path.join(d, f)))
            c = dict(r["case"])
            c["family"] = "corpus:" + f[len(pid) + 1:-5]
            c.pop("id", None)
            out.append(c)
    return out


def directed_reserved(cg):
    """the guard of C07_request_roundtrip_partial: the application itself sets the reserved header"""
    out = []
    for simple in (False,):
        c = cg.make("reserved-header", nparams=2, variadic=False, missing=False, arity="eq", strings=True, nhdrs=0)
        c["copts"]["simple"] = simple
        c["types"] = [T("string")]
        c["methods"] = [dict(c["methods"][0], params=[0, 0], variadic=False, velem=None, results=[], missing=False, id=1)]
        c["res"] = {"kind": "values", "values": [], "msg": ""}
        c["rtypes"], c["rt_default"], c["rhdrs"] = [], False, []
        c["args"] = [{"t": T("string"), "v": hx(b"hello")}, {"t": T("string"), "v": hx(b"hello")}]
        c["want"] = [0, 0]
        c["hdrs"] = [{"k": hx(b"simple"), "v": {"t": IFACE, "v": {"t": T("bool"), "v": True}}}]
        out.append(c)
    return out


# ------------------------------------------------------------------------------------------ model lines

TYPES = [None]          # the type table of the case being rendered


def ty_sx(i):
    if i < 0 or (TYPES[0] is not None and i < len(TYPES[0]) and TYPES[0][i]["k"] == "iface"):
        return "i"
    return "(n %d)" % i


def opts_sx(o, service):
    f = [int(o["simple"])] + ([int(o.get("debug", False))] if service else []) + \
        [o["long"], o["real"], o["map"], o["struct"], o["list"]]
    return " ".join(str(x) for x in f)


def or_sx(entries, tyidx):
    out = []
    for e, t in zip(entries, tyidx):
        out.append("(%s %s)" % (ty_sx(t), "ERR" if e.get("err") else e["v"]))
    return " ".join(out)


def hdr_or_sx(entries):
    return " ".join("(x%s %s)" % (e["k"], "ERR" if e["v"].startswith("ERR ") else e["v"]) for e in entries)


def model_line(c, o, horder=None, rhorder=None, with_go=True):
    TYPES[0] = c["types"]
    hs = dict((e["k"], e["v"]) for e in (o.get("hdrs_sx") or []))
    rhs = dict((e["k"], e["v"]) for e in (o.get("rhdrs_sx") or []))
    horder = horder if horder is not None else [h["k"] for h in c["hdrs"]]
    rhorder = rhorder if rhorder is not None else [h["k"] for h in c["rhdrs"]]
    skey = hx(b"simple")

    def hv_(k, tbl):
        return "(bool 1)" if k == skey and k not in tbl else tbl[k]
    parts = ["(codec %s)" % c["codec"], "(copts %s)" % opts_sx(c["copts"], False), "(sopts %s)" % opts_sx(c["sopts"], True),
             o["heap"],
             "(lower %s)" % " ".join("(x%s x%s)" % (e["k"], e["v"]) for e in o["lower"])]
    ms = []
    for m in c["methods"]:
        ms.append("(%d x%s %d %d (params %s) %s (results %s) %d)" % (
            m["id"], m["name"], int(m["missing"]), int(m["ctx"]), " ".join(ty_sx(p) for p in m["params"]),
            ("(velem %s)" % ty_sx(m["velem"])) if m.get("velem") is not None else "(novelem)",
            " ".join(ty_sx(p) for p in m["results"]), int(m["err"])))
    parts.append("(methods %s)" % " ".join(ms))
    parts.append("(call x%s)" % c["call"])
    parts.append("(args %s)" % " ".join(o.get("args_sx") or []))
    parts.append("(hdrs %s)" % " ".join("(x%s %s)" % (k, hv_(k, hs)) for k in horder))
    parts.append("(orargs %s)" % or_sx(o.get("or_args") or [], c["want"]))
    or_h = list(o.get("or_hdrs") or [])
    if c["codec"] == "hprose" and c["copts"]["simple"]:
        or_h = [e for e in or_h if e["k"] != skey] + [{"k": skey, "v": "(bool 1)"}]
    parts.append("(orhdrs %s)" % hdr_or_sx(or_h))
    res = c["res"]
    if res["kind"] == "values":
        parts.append("(result (values %s))" % " ".join(o.get("res_sx") or []))
    elif res["kind"] == "error":
        parts.append("(result (error x%s))" % res["msg"])
    else:
        parts.append("(result (panic x%s x%s))" % (res["msg"], STACK.hex()))
    parts.append("(rhdrs %s)" % " ".join("(x%s %s)" % (k, hv_(k, rhs)) for k in rhorder))
    rts = [-1] if c.get("rt_default") else (c["rtypes"] or [])
    parts.append("(rtypes %s)" % " ".join(ty_sx(t) for t in rts))
    n_or = len(o.get("or_res") or [])
    parts.append("(orres %s)" % or_sx(o.get("or_res") or [], rts[:n_or] if len(rts) != 1 else rts))
    or_rh = list(o.get("or_rhdrs") or [])
    if c["codec"] == "hprose" and c["sopts"]["simple"]:
        or_rh = [e for e in or_rh if e["k"] != skey] + [{"k": skey, "v": "(bool 1)"}]
    parts.append("(orrhdrs %s)" % hdr_or_sx(or_rh))
    parts.append("(zeros %s)" % or_sx(o.get("zeros") or [], rts))
    if with_go:
        parts.append("(goreq x%s)" % o["req"].get("hex", "") if False else "(goreq %s)" % (o["req"].get("hex") or "-"))
        parts.append("(goresp %s)" % (o["resp"].get("hex") or "-"))
    if c["codec"] == "jsonrpc":
        jid = (o.get("jreq") or {}).get("id", 1)
        parts.append("(counter %d)" % (jid - 1))
    return "(c07 " + " ".join(parts) + ")"


def parse_kv(line):
    d = {}
    for tok in line.strip("\n").split("\t"):
        if "=" in tok:
            k, v = tok.split("=", 1)
            d[k] = v
    return d


def fmt_vals(tvs):
    return "[" + ";".join(t["v"] for t in tvs) + "]"


def fmt_hdrs(kvs):
    return "[" + ";".join(sorted("%s:%s" % (e["k"], e["v"]) for e in kvs)) + "]"


# ------------------------------------------------------------------------------------------ expectations (independent of the model)

def expected_method(c, o):
    low = dict((e["k"], e["v"]) for e in o["lower"])
    target = low.get(c["call"])
    for m in c["methods"]:
        if not m["missing"] and low.get(m["name"]) == target:
            return m["id"]
    for m in c["methods"]:
        if m["missing"]:
            return m["id"]
    return -1


def property_oracle(c, o):
    """The property text evaluated on the implementation's behaviour.  Returns list of (key, what)."""
    out = []
    req, dec, cd = o["req"], o["dec"], o["cdec"]
    fam = c["family"]
    if req.get("panic") or req.get("err"):
        out.append(("client-encode-fails", "client codec Encode failed: %s" % (req.get("panic") or req.get("err"))))
        return out
    want_m = expected_method(c, o)
    if dec.get("panic"):
        m0 = c["methods"][0]
        if c["codec"] == "jsonrpc" and not m0["missing"] and not m0["variadic"] and len(c["args"]) > len(m0["params"]) \
           and "nil pointer" in dec.get("panic", ""):
            out.append(("jsonrpc-service-decode-panics-on-more-arguments-than-parameters",
                        "JSON-RPC service codec Decode panics (%s) when the request has more arguments (%d) than the method has parameters (%d)"
                        % (dec.get("panic", "")[:80], len(c["args"]), len(m0["params"]))))
        else:
            out.append((c["codec"] + "-service-decode-panics:" + norm(dec.get("panic", "")), "service codec Decode panicked on the client codec's request: " + dec.get("panic", "")[:200]))
    elif want_m == -1:
        if not dec.get("failed"):
            out.append(("no-method-accepted", "no method and no missing-method handler, but Decode returned no error"))
    else:
        if dec.get("failed"):
            # a decode error is legitimate only when some argument does not fit its parameter type (plain io round trip fails too)
            if not any(e.get("err") for e in (o.get("or_args") or [])) and \
               not any(e["v"].startswith("ERR") for e in (o.get("or_hdrs") or [])):
                out.append(("service-decode-error:" + norm(dec.get("err", "")), "service codec Decode failed on the client codec's request: " + dec.get("err", "")[:200]))
        else:
            if dec["name"] != c["call"]:
                out.append(("method-name-differs", "decoded method name %s, called %s" % (dec["name"], c["call"])))
            if dec["method"] != want_m:
                out.append(("wrong-method", "decoded to method #%s, the property requires #%s" % (dec["method"], want_m)))
            if any(e["v"].startswith("ERR") for e in (o.get("or_hdrs") or [])):
                out.append(("header-decode-error-dropped-when-call-has-no-arguments",
                            "a request header value cannot be decoded under the service's options (%s) but Decode returns no error "
                            "because the call has no argument list; the headers reach the service wrong"
                            % [e["v"][4:80] for e in o["or_hdrs"] if e["v"].startswith("ERR")][0]))
            keys = sorted(e["k"] for e in dec["hdrs"])
            wantk = sorted(set([h["k"] for h in c["hdrs"]] + ([hx(b"simple")] if c["codec"] == "hprose" and c["copts"]["simple"] else [])))
            if any(e["v"].startswith("ERR") for e in (o.get("or_hdrs") or [])):
                pass
            elif keys != wantk:
                out.append(("headers-differ", "decoded header keys %s, sent %s" % (keys, wantk)))
            for i, (d, orc) in enumerate(zip(dec.get("hdr_eq") or [], o.get("or_hdrs") or [])):
                if d and not orc["v"].startswith("ERR"):
                    got = dict((e["k"], e["v"]) for e in dec["hdrs"]).get(c["hdrs"][i]["k"])
                    if got != orc["v"]:
                        out.append(("header-value-differs", "header %s: %s" % (c["hdrs"][i]["k"], d[:160])))
            if c["codec"] == "hprose":
                gs = dict((e["k"], e["v"]) for e in (dec.get("hdr_sigs") or []))
                for e in (o.get("or_hdr_sigs") or []):
                    if e["k"] in gs and gs[e["k"]] != e["v"]:
                        out.append(("header-dynamic-type-differs-from-the-service-codec-options",
                                    "request header %s was decoded as %s; with the service codec's options it is %s" % (e["k"], gs[e["k"]][:120], e["v"][:120])))
            if len(dec.get("args") or []) != len(c["args"]):
                out.append(("argument-count-differs", "decoded %d arguments, %d were passed" % (len(dec.get("args") or []), len(c["args"]))))
            else:
                for i, (d, orc) in enumerate(zip(dec.get("eq") or [], o.get("or_args") or [])):
                    # the argument arrived different although the same value ALONE round-trips into the type
                    if d and solo_ok(orc):
                        ptrs = [set(re.findall(r"\(ptr (\d+)\)", sx)) for sx in (o.get("args_sx") or [])]
                        shared = any(ptrs[i] & ptrs[j] for j in range(len(ptrs)) if j != i) if i < len(ptrs) else False
                        key = "pointer-shared-between-arguments-of-different-static-types-decoded-wrong" if shared else "argument-value-differs"
                        out.append((key, "argument %d: %s (the plain io round trip of this argument alone into %s is equal)" % (i, d[:160], orc["ty"])))
                    if orc.get("sig") and dec["args"][i].get("sig") and dec["args"][i]["sig"] != orc["sig"] and not orc.get("err"):
                        out.append(("argument-dynamic-type-differs-from-the-service-codec-options",
                                    "argument %d was decoded as %s; the plain io decoder with the service codec's options %s gives %s"
                                    % (i, dec["args"][i]["sig"][:120], opts_sx(c["sopts"], True), orc["sig"][:120])))
                    w = c["want"][i]
                    if w >= 0 and o["type_names"][w] != "interface {}" and dec["args"][i]["ty"] != o["type_names"][w]:
                        out.append(("argument-type-differs", "argument %d decoded as %s, parameter type %s" % (i, dec["args"][i]["ty"], o["type_names"][w])))
    # response
    resp = o["resp"]
    if resp.get("panic") or resp.get("err"):
        out.append(("service-encode-fails", "service codec Encode failed: %s" % (resp.get("panic") or resp.get("err"))))
        return out
    res = c["res"]
    msg = bytes.fromhex(res["msg"])
    is_errval = fam in ("error-value-result", "corpus:known-error-value-result")
    if c["codec"] == "jsonrpc" and o.get("jreq") and o.get("jresp") and not o["jresp"].get("bad_json") \
       and not dec.get("panic") and o["jresp"].get("id") != o["jreq"].get("id"):
        out.append(("jsonrpc-id-not-echoed", "response id %s for request id %s" % (o["jresp"].get("id"), o["jreq"].get("id"))))
    if cd.get("panic"):
        nrt = 1 if c.get("rt_default") else len(c["rtypes"] or [])
        if c["codec"] == "jsonrpc" and nrt >= 2 and len(res["values"]) > nrt and "index out of range" in cd.get("panic", ""):
            out.append(("jsonrpc-client-decode-panics-on-more-results-than-declared",
                        "JSON-RPC client codec Decode panics (%s) when the response carries more results (%d) than the caller declared (%d)"
                        % (cd.get("panic", "")[:80], len(res["values"]), nrt)))
        else:
            out.append((c["codec"] + "-client-decode-panics:" + norm(cd.get("panic", "")), "client codec Decode panicked on the service codec's response: " + cd.get("panic", "")[:200]))
    elif res["kind"] in ("error", "panic"):
        got = cd.get("err", "")
        if any(e["v"].startswith("ERR") for e in (o.get("or_rhdrs") or [])):
            pass        # a response header value that cannot be decoded: the decoder's sticky error replaces the message (C01/C06)
        elif not cd.get("failed"):
            out.append(("error-lost", "the error %r reached the caller as success" % msg[:40]))
        else:
            gotb = got.encode("utf-8", "surrogateescape") if isinstance(got, str) else got
            debug = c["codec"] == "hprose" and c["sopts"]["debug"] and res["kind"] == "panic"
            want = msg + b"\r\n" + STACK if debug else msg
            if go_text(want) != got:
                out.append(("error-message-differs", "error message %r, the function's was %r" % (got[:60], go_text(want)[:60])))
    elif is_errval:
        if not cd.get("failed"):
            pass
        else:
            out.append(("error-value-result-becomes-error", "a result that is an error VALUE is delivered as a failed call (%r)" % cd.get("err", "")[:60]))
    else:
        if cd.get("failed"):
            if not any(e.get("err") for e in (o.get("or_res") or [])) and \
               not any(e["v"].startswith("ERR") for e in (o.get("or_rhdrs") or [])):
                out.append(("client-decode-error:" + norm(cd.get("err", "")), "client codec Decode failed on the service codec's response: " + cd.get("err", "")[:200]))
        else:
            if c["codec"] == "hprose":
                for i, (got, orc) in enumerate(zip(cd.get("results") or [], o.get("or_res") or [])):
                    if orc.get("sig") and got.get("sig") and got["sig"] != orc["sig"] and not orc.get("err"):
                        out.append(("result-dynamic-type-differs-from-the-client-codec-options",
                                    "result %d was decoded as %s; the plain io decoder with the client codec's options %s gives %s"
                                    % (i, got["sig"][:120], opts_sx(c["copts"], False), orc["sig"][:120])))
                gs = dict((e["k"], e["v"]) for e in (cd.get("hdr_sigs") or []))
                for e in (o.get("or_rhdr_sigs") or []):
                    if e["k"] in gs and gs[e["k"]] != e["v"]:
                        out.append(("header-dynamic-type-differs-from-the-client-codec-options",
                                    "response header %s was decoded as %s; with the client codec's options it is %s" % (e["k"], gs[e["k"]][:120], e["v"][:120])))
            for i, (d, orc) in enumerate(zip(cd.get("eq") or [], o.get("or_res") or [])):
                if d and solo_ok(orc):
                    ptrs = [set(re.findall(r"\(ptr (\d+)\)", sx)) for sx in (o.get("res_sx") or [])]
                    shared = any(ptrs[i] & ptrs[j] for j in range(len(ptrs)) if j != i) if i < len(ptrs) else False
                    key = "pointer-shared-between-results-of-different-static-types-decoded-wrong" if shared else "result-value-differs"
                    out.append((key, "result %d: %s (the plain io round trip of this result alone is equal)" % (i, d[:160])))
    return out


def solo_ok(orc):
    """does this value, on its own, round-trip into the expected type equal to itself (C01 for the single value)?"""
    if "solo" in orc or "solo_err" in orc:
        return not orc.get("solo_eq") and not orc.get("solo_err")
    return not orc.get("eq") and not orc.get("err")


def go_text(b):
    """how a Go string with these bytes appears in the harness' JSON output"""
    return b.decode("utf-8", "replace")


def norm(msg):
    msg = re.sub(r"\[[^\]]*\]", "[]", msg or "")
    msg = re.sub(r"0x[0-9a-f]+", "0x#", msg)
    msg = re.sub(r"-?\d+(\.\d+)?", "#", msg)
    msg = re.sub(r'"[^"]*"', '"…"', msg)
    return msg[:80]


# ------------------------------------------------------------------------------------------ comparison with the model

def compare(c, o, m):
    """model (dict of key=value) vs implementation observation.  Returns list of (what) disagreements."""
    dis = []
    if "MODEL-ERROR" in m.get("_raw", ""):
        return ["model driver failed: " + m["_raw"][:200]]
    req, dec, cd = o["req"], o["dec"], o["cdec"]
    hp = c["codec"] == "hprose"
    if hp:
        if m.get("req") == "fail":
            if not (req.get("err") or req.get("panic")):
                dis.append("model cannot encode the request, the client codec can")
            return dis
        if not o.get("unordered") and m.get("req") != req.get("hex"):
            dis.append("request bytes differ: model %s go %s" % (show_hex(m.get("req")), show_hex(req.get("hex"))))
    else:
        j = o.get("jreq") or {}
        if j.get("bad_json"):
            dis.append("request is not JSON: " + j["bad_json"])
        else:
            if str(j.get("id")) != m.get("jid"):
                dis.append("JSON-RPC id: model %s go %s" % (m.get("jid"), j.get("id")))
            if j.get("method") != c["call"]:
                dis.append("JSON-RPC method differs")
            if int(bool(j.get("has_params"))) != int(m.get("jhas_params", "0")):
                dis.append("JSON-RPC params presence: model %s go %s" % (m.get("jhas_params"), j.get("has_params")))
            if int(bool(j.get("has_hdrs"))) != int(m.get("jhas_hdrs", "0")):
                dis.append("JSON-RPC headers presence: model %s go %s" % (m.get("jhas_hdrs"), j.get("has_hdrs")))
    sd = m.get("sd", "")
    if sd.startswith("TYPE-MISMATCH"):
        dis.append("parameter typing: " + sd)
    elif sd == "ok":
        if dec.get("failed") or dec.get("panic"):
            dis.append("model decodes the request, the service codec fails: %s" % (dec.get("err") or dec.get("panic") or "")[:160])
        else:
            if m.get("name") != dec["name"]:
                dis.append("decoded name: model %s go %s" % (m.get("name"), dec["name"]))
            if m.get("method") != str(dec["method"]):
                dis.append("method: model #%s go #%s" % (m.get("method"), dec["method"]))
            if m.get("hdrs") != fmt_hdrs(dec["hdrs"]):
                dis.append("decoded headers: model %s go %s" % (m.get("hdrs", "")[:200], fmt_hdrs(dec["hdrs"])[:200]))
            if m.get("args") != fmt_vals(dec.get("args") or []):
                dis.append("decoded arguments: model %s go %s" % (m.get("args", "")[:300], fmt_vals(dec.get("args") or [])[:300]))
    elif sd == "nomethod":
        want = bytes.fromhex(m.get("msg", ""))
        if not dec.get("failed") or dec.get("err", "") != go_text(want):
            dis.append("no-method error text: model %r go %r" % (go_text(want)[:80], (dec.get("err") or "")[:80]))
    elif sd == "decerr":
        if not dec.get("failed") and not dec.get("panic"):
            dis.append("model reports a decode error, the service codec decodes")
    elif sd == "err":
        want = bytes.fromhex(m.get("msg", ""))
        if not dec.get("failed") or dec.get("err", "") != go_text(want):
            dis.append("JSON-RPC decode error: model %r go %r" % (go_text(want)[:80], (dec.get("err") or dec.get("panic") or "")[:80]))
    elif sd == "panic":
        if not dec.get("panic"):
            dis.append("model predicts a panic inside Decode, the service codec returned normally")
    else:
        dis.append("model request decode: %r" % sd)
    if hp and sd == "ok":
        for k in ("aligned", "closed", "readable"):
            if m.get(k) != "1":
                dis.append("model's own scopes are not %s (contradicts C07_segments_aligned_partial)" % k)
        for k in ("go_closed", "go_readable"):
            if k in m and m[k] != "1":
                dis.append("the implementation's request bytes: scopes not %s" % k[3:])
    # response
    resp = o["resp"]
    if hp:
        if m.get("resp") == "fail":
            if not (resp.get("err") or resp.get("panic")):
                dis.append("model cannot encode the response, the service codec can")
            return dis
        if not o.get("unordered") and m.get("resp") != resp.get("hex"):
            dis.append("response bytes differ: model %s go %s" % (show_hex(m.get("resp")), show_hex(resp.get("hex"))))
    else:
        j = o.get("jresp") or {}
        if j.get("bad_json"):
            dis.append("response is not JSON: " + j["bad_json"])
        else:
            if int(bool(j.get("has_result"))) != int(m.get("jr_has_result", "0")):
                dis.append("JSON-RPC result presence: model %s go %s" % (m.get("jr_has_result"), j.get("has_result")))
            if j.get("has_error"):
                if m.get("jr_error") == "0":
                    dis.append("JSON-RPC error object present, model has none")
                else:
                    if str(j.get("code", 0)) != m.get("jr_code"):
                        dis.append("JSON-RPC error code: model %s go %s" % (m.get("jr_code"), j.get("code")))
                    if j.get("message", "") != m.get("jr_message"):
                        dis.append("JSON-RPC error message differs")
                    if int(bool(j.get("has_data"))) != int(m.get("jr_has_data", "0")):
                        dis.append("JSON-RPC error data presence differs")
            elif m.get("jr_error") != "0":
                dis.append("model has a JSON-RPC error object, the implementation none")
    cdm = m.get("cd", "")
    if cdm.startswith("TYPE-MISMATCH"):
        dis.append("return typing: " + cdm)
    elif cdm == "res":
        if cd.get("failed") or cd.get("panic"):
            dis.append("model decodes the response, the client codec fails: %s" % (cd.get("err") or cd.get("panic") or "")[:160])
        else:
            if m.get("vals") != fmt_vals(cd.get("results") or []):
                dis.append("decoded results: model %s go %s" % (m.get("vals", "")[:300], fmt_vals(cd.get("results") or [])[:300]))
            if m.get("rhdrs") != fmt_hdrs(cd["hdrs"]):
                dis.append("response headers: model %s go %s" % (m.get("rhdrs", "")[:200], fmt_hdrs(cd["hdrs"])[:200]))
    elif cdm == "err":
        want = bytes.fromhex(m.get("emsg", ""))
        if not cd.get("failed") or cd.get("err", "") != go_text(want):
            dis.append("error text: model %r go %r" % (go_text(want)[:80], (cd.get("err") or cd.get("panic") or "")[:80]))
        if hp and (m.get("timeout") == "1") != (cd.get("err_kind") == "timeout"):
            dis.append("ErrTimeout mapping: model %s go %s" % (m.get("timeout"), cd.get("err_kind")))
        if not hp and m.get("ekind") != cd.get("err_kind"):
            dis.append("JSON-RPC error class: model %s go %s" % (m.get("ekind"), cd.get("err_kind")))
    elif cdm == "decerr":
        if not cd.get("failed") and not cd.get("panic"):
            dis.append("model reports a response decode error, the client codec decodes")
    elif cdm == "panic":
        if not cd.get("panic"):
            dis.append("model predicts a panic inside the client's Decode, it returned normally")
    elif cdm == "invalid":
        if not cd.get("failed"):
            dis.append("model: invalid response; client codec accepted it")
    else:
        dis.append("model response decode: %r" % cdm)
    if hp and cdm in ("res", "err"):
        for k in ("r_aligned", "r_closed", "r_readable"):
            if m.get(k) != "1":
                dis.append("model's own response scopes are not %s" % k[2:])
    # Service.Handle: decode, execute the scripted function, shape, encode
    rh = o.get("resp_handle") or {}
    if hp and sd == "ok" and not dec.get("failed") and rh.get("hex") is not None and not o.get("unordered"):
        debug_panic = c["sopts"]["debug"] and c["res"]["kind"] == "panic"
        fits = handle_comparable(c, o)
        nrh = len(c["rhdrs"]) + int(c["sopts"]["simple"])
        same = rh.get("hex") == resp.get("hex")
        if not same and nrh >= 2 and rh.get("hex") and resp.get("hex"):
            # two Go maps iterated independently: same bytes up to the order of the header entries
            a, b = bytes.fromhex(rh["hex"]), bytes.fromhex(resp["hex"])
            nod = lambda x: sorted(ch for ch in x if not 48 <= ch <= 57)     # reference indexes move with the order
            same = len(a) == len(b) and nod(a) == nod(b)
        if fits and not debug_panic and not same:
            dis.append("Service.Handle response differs from the codec's encoding of the shaped result: %s vs %s" % (show_hex(rh.get("hex")), show_hex(resp.get("hex"))))
        if fits and len(o.get("handle_log") or []) != 1:
            dis.append("Service.Handle ran the function %d times" % len(o.get("handle_log") or []))
    return dis


def handle_comparable(c, o):
    """Service.Handle executes the method: only comparable when the call conforms to the signature"""
    m = c["methods"][0]
    if c["family"] in ("no-method",):
        return False
    if m["missing"]:
        return True
    n = len(c["args"])
    fixed = len(m["params"]) - (1 if m["variadic"] else 0)
    if m["variadic"]:
        if n < fixed:
            return False
    elif n != fixed:
        return False
    return True


def show_hex(h):
    if not h:
        return str(h)
    try:
        return repr(bytes.fromhex(h)[:120].decode("latin-1"))
    except ValueError:
        return h[:120]


# ------------------------------------------------------------------------------------------ the run

def header_orders(c, which, simple):
    keys = [h["k"] for h in c[which]]
    if simple:
        keys = keys + [hx(b"simple")]
    return keys


def run_cases(ctx, cases):
    obs_by_id, crashes = hv.run_harness_resilient("c07", cases, timeout=1500)
    done = [c for c in cases if c["id"] in obs_by_id and not obs_by_id[c["id"]].get("build_err")]
    for c in cases:
        o = obs_by_id.get(c["id"])
        if o and o.get("build_err"):
            ctx.bump("generator_build_errors")
            if ctx.cov.get("generator_build_errors", 0) <= 3:
                ctx.note("build_err_example_%d" % ctx.cov["generator_build_errors"], o["build_err"][:200])
    lines = [model_line(c, obs_by_id[c["id"]]) for c in done]
    outs = hv.run_model("c07", lines) if lines else []
    models = {}
    for c, out in zip(done, outs):
        d = parse_kv(out)
        d["_raw"] = out if out.startswith("MODEL-ERROR") else ""
        models[c["id"]] = d
    # header order: a Go map iterates in an unspecified order; find the order the implementation used
    retry = []
    for c in done:
        o, m = obs_by_id[c["id"]], models[c["id"]]
        if c["codec"] != "hprose" or o.get("unordered"):
            continue
        hk = header_orders(c, "hdrs", c["copts"]["simple"])
        rk = header_orders(c, "rhdrs", c["sopts"]["simple"])
        need_h = len(hk) >= 2 and m.get("req") != o["req"].get("hex")
        need_r = len(rk) >= 2 and m.get("resp") != o["resp"].get("hex")
        if need_h or need_r:
            for ph in (itertools.permutations(hk) if need_h else [None]):
                for pr in (itertools.permutations(rk) if need_r else [None]):
                    retry.append((c, list(ph) if ph else None, list(pr) if pr else None))
    if retry:
        outs2 = hv.run_model("c07", [model_line(c, obs_by_id[c["id"]], ph, pr) for c, ph, pr in retry])
        for (c, ph, pr), out in zip(retry, outs2):
            d = parse_kv(out)
            d["_raw"] = out if out.startswith("MODEL-ERROR") else ""
            o, cur = obs_by_id[c["id"]], models[c["id"]]
            score = lambda x: int(x.get("req") == o["req"].get("hex")) + int(x.get("resp") == o["resp"].get("hex"))
            if score(d) > score(cur):
                models[c["id"]] = d
    return obs_by_id, models, crashes, done


def run(ctx):
    ctx.level = "proof"
    ctx.assumptions += [
        "C01 (typed round trip) is a premise of the C07 theorems: decoding one self-contained top-level value into a Go type is "
        "abstract in the model; in the correspondence run it is instantiated per case by the plain io round trip of each value "
        "into the type the property expects, so 'codec decode = plain round trip' is checked on every value",
        "strings.ToLower, float/big/uuid/time texts are taken from the standard library by the harness",
        "the JSON text (jsoniter) is an oracle: only the envelope structure and the value round trips are compared",
        "Go map iteration order is unspecified: the header order of each message is recovered by trying the permutations",
    ]
    ctx.prove()
    hv.build_harness("c07")
    hv.build_modelrun("c07")
    reg = iogen.load_registry(os.path.join(hv.HBIN, "hv-c07"))
    cases = gen_cases(ctx, reg)
    cg = CaseGen(ctx, reg)
    reserved = directed_reserved(cg)
    for i, c in enumerate(reserved):
        c["id"] = len(cases) + 1 + i
    obs_by_id, models, crashes, done = run_cases(ctx, cases + reserved)
    for c, rc, err in crashes:
        mm = re.search(r"(fatal error:[^\n]*|panic:[^\n]*|SIG[A-Z]+[^\n]*)", err)
        ctx.report("c07:process-killed:" + norm(mm.group(1) if mm else "unknown"),
                   "the executor process died while running a case: " + (mm.group(1) if mm else err[:200]),
                   {"case": c, "stderr": err[:1500], "failing_input": True})
    validated = 0
    disagreements = []
    pure = []          # model and implementation disagree although the property holds on the case
    for c in done:
        o, m = obs_by_id[c["id"]], models[c["id"]]
        fam = c["family"]
        canon = json.dumps({k: c[k] for k in ("codec", "copts", "sopts", "methods", "call", "args", "hdrs", "rhdrs", "res", "rtypes")}, sort_keys=True)
        nontrivial = bool(c["args"]) or bool(c["hdrs"]) or c["res"]["kind"] != "values" or bool(c["res"]["values"])
        ctx.count_case(canon, nontrivial)
        ctx.bump("cases_by_family", fam)
        ctx.bump("option_pairs", "%s/%s" % (opts_sx(c["copts"], False).replace(" ", ""), opts_sx(c["sopts"], True).replace(" ", "")))
        if fam == "reserved-header":
            bad = o["dec"].get("panic") or o["dec"].get("err")
            ctx.note("reserved_header_guard", "application-set header simple=true on a reference-mode client: service Decode %s"
                     % (("fails: " + bad[:120]) if bad else "succeeds"))
            continue
        dis = compare(c, o, m)
        fails = property_oracle(c, o)
        known_guard = []
        for key, what in fails:
            ctx.report("c07:" + key, what, {"case": c, "observed": slim(o), "model": m, "failing_input": True})
        if dis:
            disagreements.append((c, o, m, dis))
            if not fails:
                pure.append((c, o, m, dis))
            ctx.bump("disagreement_kinds", fam + ": " + re.sub(r"[0-9a-f]{6,}", "..", dis[0])[:70])
        elif not fails:
            validated += 1
            if len(ctx.cov["samples"]) < 6 and nontrivial and ctx.rng.random() < 0.02:
                ctx.sample({"family": fam, "call": bytes.fromhex(c["call"]).decode("utf-8", "replace"),
                            "request": show_hex(o["req"].get("hex")), "response": show_hex(o["resp"].get("hex"))})
    ctx._disagreements = disagreements
    ctx.note("traces_validated_against_impl", validated)
    ctx.note("cases", len(done))
    ctx.note("option_pairs_distinct", len(ctx.cov.get("option_pairs", {})))
    ctx.cov.pop("option_pairs", None)
    ctx.note("rule", "random signatures (0-4 parameters of ~40 types, variadic tails, missing-method handler) x argument lists "
             "(as many / fewer / more than the parameters, strings and pointers shared across arguments, headers, name) x names "
             "(case, non-ASCII, empty, invalid UTF-8) x header lists x result shapes (none/one/several/error/panic/error value) x "
             "declared return types (matching/default/none/longer/shorter) x Simple/Debug/LongType/RealType/MapType/StructType/ListType "
             "on both sides (all 120 decoder combinations are walked); JSON-RPC with JSON-representable values; "
             "non-trivial = has arguments, headers, results or an error; distinct by the whole case")
    # a disagreement between model and implementation without a failing property: the correspondence is broken
    if pure:
        c, o, m, dis = pure[0]
        ctx.report("c07:correspondence", "Model/Codec.v no longer matches the codecs (%d cases; first: %s)" % (len(pure), dis[0][:300]),
                   {"case": c, "observed": slim(o), "model": m, "disagreements": dis[:5], "failing_input": False,
                    "correspondence": "Codec.client_encode/service_decode/service_encode/client_decode vs rpc/core codecs",
                    "disagreeing_cases": len(pure)})
    if disagreements:
        ctx.note("model_disagreements_on_cases_with_reported_failures", len(disagreements))
        ctx.note("first_disagreement", disagreements[0][3][0][:300])


def slim(o):
    o = dict(o)
    for k in ("heap", "lower"):
        o.pop(k, None)
    return json.loads(json.dumps(o)[:6000]) if len(json.dumps(o)) <= 6000 else {"truncated": json.dumps(o)[:6000]}


def replay(ctx, path):
    r = json.load(open(path))
    hv.build_harness("c07")
    hv.build_modelrun("c07")
    c = r["case"]
    c.setdefault("id", 1)
    obs_by_id, models, crashes, done = run_cases(ctx, [c])
    if crashes:
        print("executor died:", crashes[0][2][:300])
        return 1
    o, m = obs_by_id[c["id"]], models.get(c["id"], {})
    fails = property_oracle(c, o)
    dis = compare(c, o, m) if m else []
    print("request :", show_hex(o["req"].get("hex")), o["req"].get("err") or o["req"].get("panic") or "")
    print("decode  :", o["dec"].get("err") or o["dec"].get("panic") or "ok", fmt_vals(o["dec"].get("args") or [])[:300])
    print("response:", show_hex(o["resp"].get("hex")))
    print("result  :", o["cdec"].get("err") or o["cdec"].get("panic") or "ok", fmt_vals(o["cdec"].get("results") or [])[:300])
    print("property oracle:", fails)
    print("model disagreements:", dis)
    return 1 if fails or dis else 0
