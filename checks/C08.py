"""C08: a remote call returns what the service function returns, on every transport.

Proof: Props/C08.v (remote = local up to C01's normal forms, exactly once into the right function with the
right arguments, errors and panics reach the caller as errors with the same message; premises: C01 for the io
decoder, C12 and C09 for the transport; C07 for the codecs is used as proved).
Tie: a real Service publishes functions built from the case's signature (every entry is logged), bound to a
real server of each transport (quick: mock, tcp, net/http; thorough: also unix, fasthttp, websocket, udp), with
and without a worker pool; a real Client calls through a proxy built by UseService or through InvokeContext;
the same function is called directly.  Compared with the extracted model (Model/Call.v): the name on the wire,
the invocation log, results / error / panic text; the property's own oracle is evaluated on every case.
Environment trouble (ports, sockets, timeouts) is counted as inconclusive, never as a verdict."""
import importlib.util
import json
import os
import re

import hv
import iogen
from iogen import T, Slice, Map, Ptr, Reg, IFACE, hx

_spec = importlib.util.spec_from_file_location("chk_C07_lib", os.path.join(hv.V, "checks", "C07.py"))
c07 = importlib.util.module_from_spec(_spec)
_spec.loader.exec_module(c07)

STACK = b"STACK"
QUICK_TRANSPORTS = ["mock", "tcp", "http"]
ALL_TRANSPORTS = ["mock", "tcp", "http", "unix", "fasthttp", "ws", "udp"]
FIELDS = ["F", "Add", "GetName", "Hello", "Sum", "Echo", "Do"]
OUTERS = ["User", "Svc", "Api"]

PALETTE = [t for t in c07.PALETTE if json.dumps(t) not in (json.dumps(Ptr(Reg("Tree"))),)]


def naming_path(p):
    """the field names that contribute a name segment: an embedded (anonymous) struct field contributes none"""
    emb = p.get("embed") or []
    return [f for i, f in enumerate(p["path"]) if not (i < len(emb) and emb[i])]


def mangled(ns, tag, path):
    n = tag if tag else ".".join(path).encode()
    n = n.replace(b".", b"_")
    return (ns + b"_" + n) if ns else n


class Gen08:
    def __init__(self, ctx, reg):
        self.ctx = ctx
        self.rng = ctx.rng
        self.cg = c07.CaseGen(ctx, reg)
        self.g = self.cg.g
        self.k = 0

    def make(self, family, transport, **kw):
        r = self.rng
        self.g.json_mode = False
        self.k += 1
        types = []
        tidx = lambda td: self.cg.tidx(types, td)
        pool = {"pool": {}, "cycles": False}
        via = kw.get("via", r.choice(["invoke", "proxy"]))
        nparams = kw.get("nparams", r.choice([0, 1, 1, 2, 2, 3]))
        variadic = kw.get("variadic", r.random() < 0.2)
        missing = kw.get("missing", r.random() < 0.08)
        ptds = kw.get("ptds") or [r.choice(PALETTE) for _ in range(nparams)]
        params = [tidx(t) for t in ptds]
        velem = None
        if variadic and not missing:
            e = r.choice([T("int"), T("string"), IFACE, Reg("Inner"), Ptr(Reg("Inner")), T("float64")])
            velem = tidx(e)
            params.append(tidx(Slice(e)))
        fixed = len(params) - (1 if velem is not None else 0)
        arity = kw.get("arity", "eq" if via == "proxy" else r.choice(["eq"] * 8 + ["fewer", "more"]))
        if missing:
            nargs = r.choice([0, 1, 2, 3])
        elif velem is not None:
            nargs = {"eq": fixed + r.choice([0, 1, 2, 3]), "fewer": max(0, fixed - 1), "more": fixed + 3}[arity]
        else:
            nargs = {"eq": fixed, "fewer": max(0, fixed - 1), "more": fixed + 1}[arity]
        want = []
        for i in range(nargs):
            if missing:
                want.append(-1)
            elif velem is not None:
                want.append(params[i] if i < fixed else velem)
            else:
                want.append(params[i] if i < len(params) else -1)
        shared = r.choice(c07.VGen.GOOD[2:])
        args = kw.get("args")
        if args is None:
            args = []
            for w in want:
                td = IFACE if w < 0 else types[w]
                if td["k"] == "string" and r.random() < 0.4:
                    args.append({"t": td, "v": hx(shared)})
                else:
                    args.append(self.cg.value_for(td, pool))
        # outcome
        kind = kw.get("kind", r.choice(["values"] * 5 + ["error", "panic"]))
        behave = kw.get("behave", r.choice(["echo", "script"]))
        err = kw.get("err", True if kind == "error" else r.random() < 0.75)
        # the last result may be the interface type error or a concrete type implementing error (pointer to struct,
        # named slice, named string): either way it is the call's error slot (makeMethod: t.Out(n-1).Implements(errorType)),
        # and its zero value means "no error" (Execute: IsZero)
        err_type = kw.get("err_type", r.choice(["", "", "", "ptrstruct", "slice", "string"])) if err else ""
        ctx_param = kw.get("ctx", r.random() < 0.35)
        if behave == "echo" and not missing:
            nres = kw.get("nres", r.choice([0, 1, 1, 2, 3]))
            nres = min(nres, fixed, nargs)
            results = params[:nres]
            rtds = [types[i] for i in results]
            values = []
        else:
            behave = "script"
            nres = kw.get("nres", r.choice([0, 1, 1, 2, 3]))
            rtds = kw.get("rtds") or [r.choice([t for t in PALETTE if t["k"] != "iface"]) for _ in range(nres)]
            results = [tidx(t) if t["k"] != "iface" else -1 for t in rtds]
            values = kw.get("values")
            if values is None:
                values = [self.cg.value_for(t, pool) for t in rtds] if kind == "values" else []
        msg = kw.get("msg", r.choice([b"boom", b"", b"a", b"timeout", "错误 😀".encode(), b"x" * 80, b"l1\r\nl2", b"42", shared]))
        panic_type = kw.get("panic_type", r.choice(["string", "string", "error", "int"]))
        if panic_type == "int":
            msg = str(r.choice([0, 42, -7])).encode()
        if err_type == "string" and kind == "error" and not msg:
            msg = b"e"          # the zero value of a value-typed error slot (CodeErr("")) means "no error"
        # naming
        ns = kw.get("ns", r.choice([b"", b"", b"user", b"ns1"]) if via == "proxy" else b"")
        path = [r.choice(OUTERS)] * (1 if r.random() < 0.3 else 0) + [r.choice(FIELDS)]
        embed, ptrlv = [], []
        if via == "proxy" and r.random() < 0.35:
            # deeper proxies: nested named structs, embedded (anonymous) structs at any level, pointers to structs
            depth = r.choice([1, 2, 2, 3])
            outer = r.sample(OUTERS + ["Admin", "Common", "Audit"], depth)
            path = outer + [r.choice(FIELDS)]
            embed = [r.random() < 0.45 for _ in outer] + [False]
            ptrlv = [r.random() < 0.3 and not e for e in embed[:-1]]
        npath = [f for i, f in enumerate(path) if not (i < len(embed) and embed[i])]
        tag = r.choice([b"", b"", b"add", b"getUser", "方法".encode(), b"a.b"]) if via == "proxy" else b""
        if via == "proxy":
            wire = mangled(ns, tag, npath)
        else:
            wire = kw.get("call", r.choice(c07.NAMES))
        reg_name = kw.get("reg_name", c07.respell(r, wire))
        co, so = self.cg.options()
        methods = [{"id": 1, "name": hx(reg_name), "missing": False, "ctx": ctx_param, "params": params,
                    "variadic": velem is not None, "velem": velem, "results": results, "err": err, "err_type": err_type,
                    "behave": behave}]
        if missing:
            methods = [{"id": 9, "name": hx(b"*"), "missing": True, "ctx": r.random() < 0.5, "params": [], "variadic": False,
                        "velem": None, "results": [], "err": True, "behave": "script"},
                       {"id": 2, "name": hx(wire + b"_other"), "missing": False, "ctx": False, "params": [], "variadic": False,
                        "velem": None, "results": [], "err": True, "behave": "script"}]
        elif r.random() < 0.3:
            methods.append({"id": 9, "name": hx(b"*"), "missing": True, "ctx": False, "params": [], "variadic": False,
                            "velem": None, "results": [], "err": True, "behave": "script"})
        # what the caller declares
        rmode = kw.get("rmode", r.choice(["match"] * 5 + ["default", "pad", "trunc", "none"]))
        rt_default = False
        base = list(results)
        if missing:
            base = [-1] if values else []
        if rmode == "pad" and len(base) >= 2:
            rtypes = base + [tidx(r.choice([T("int"), T("string"), Ptr(Reg("Inner"))]))]
        elif rmode == "trunc" and len(base) >= 3:
            rtypes = base[:-1]
        elif rmode == "none":
            rtypes = []
        elif rmode == "default" and via == "invoke":
            rtypes, rt_default = None, True
        else:
            rtypes = base
        proxy = None
        if via == "proxy":
            pparams = [w if w >= 0 else tidx(IFACE) for w in want[:fixed]] if not missing else [tidx(IFACE) for _ in want]
            pvar = velem is not None and not missing
            if pvar:
                pparams = [params[i] for i in range(fixed)] + [params[-1]]
            elif not missing:
                pparams = list(params)
            proxy = {"path": path, "embed": embed, "ptr": ptrlv, "tag": hx(tag), "ns": hx(ns), "ctx": kw.get("pctx", r.random() < 0.4), "variadic": pvar,
                     "nfixed": fixed if pvar else len(pparams), "params": pparams,
                     "outs": rtypes or [], "err": kw.get("perr", r.random() < 0.8)}
        nh = r.choice([0, 0, 0, 1, 2])
        keys = []
        for _ in range(nh):
            k = r.choice([shared, b"k", b"trace-id", "键".encode()])
            if k and k not in keys and k != b"simple":
                keys.append(k)
        hdrs = [{"k": hx(k), "v": {"t": IFACE, "v": {"t": T("string"), "v": hx(shared)}} if r.random() < 0.5
                 else self.cg.value_for(IFACE, pool)} for k in keys]
        # response headers (set by a service-side plugin), sometimes sharing a string with the results
        rhdrs = kw.get("rhdrs")
        if rhdrs is None:
            rhdrs = []
            for k in [b"rk", shared, b"server"]:
                if k and k != b"simple" and r.random() < 0.2:
                    hvv = {"t": IFACE, "v": {"t": T("string"), "v": hx(shared)}} if r.random() < 0.6 else self.cg.value_for(IFACE, pool)
                    for _ in range(20):
                        # a double in a response header is decoded under the CLIENT's RealType option: float32 refuses
                        # (or rounds) what a float64 holds; that is the decoder's documented conversion (C06), not a
                        # property of the call, so random header values carry no floats
                        if '"float' not in json.dumps(hvv) and '"complex' not in json.dumps(hvv):
                            break
                        hvv = self.cg.value_for(IFACE, pool)
                    else:
                        hvv = {"t": IFACE, "v": {"t": T("string"), "v": hx(shared)}}
                    rhdrs.append({"k": hx(k), "v": hvv})
        if kw.get("ref_mode"):
            co["simple"], so["simple"] = False, False
        return {"family": family, "transport": transport, "pool": kw.get("pool", r.random() < 0.5), "copts": co, "sopts": so, "rhdrs": rhdrs,
                "types": types, "methods": methods, "via": via, "call": hx(wire), "proxy": proxy, "args": args, "want": want,
                "hdrs": hdrs, "res": {"kind": kind, "values": values, "msg": hx(msg), "panic_type": panic_type},
                "rtypes": rtypes, "rt_default": rt_default}


def make_group(rng, g, transport, pool):
    nf = rng.choice([2, 3, 4])
    n = rng.choice([2, 3, 4, 6, 8])
    calls = []
    for i in range(n):
        calls.append({"f": (i % nf) + 1, "x": i + 1 + 10 * rng.randint(0, 9), "via": rng.choice(["proxy", "invoke"]),
                      "s": hx(rng.choice([b"a", b"", b"hello", "中".encode(), b"x" * 20]))})
    rng.shuffle(calls)
    co, so = g.cg.options()
    return {"family": "concurrent", "group": True, "transport": transport, "pool": pool, "copts": co, "sopts": so,
            "nfuncs": nf, "calls": calls}


def make_shared_ctx(rng, g, transport, pool):
    """one *ClientContext reused for proxy calls with different result signatures (all reach conc_f1)"""
    n = rng.choice([3, 4, 6])
    # shape 2 (one declared result for a function that returns two) is not a supported declaration: not used
    shapes = [3, 1, 4, 3, 1] if rng.random() < 0.5 else [rng.choice([1, 3, 4]) for _ in range(n)]
    if len(set(shapes)) == 1:
        shapes[0] = {1: 3, 3: 4, 4: 1}[shapes[0]]
    calls = [{"f": f, "x": i + 1 + 10 * rng.randint(0, 9), "via": "proxy",
              "s": hx(rng.choice([b"a", b"", b"hello", "中".encode()]))} for i, f in enumerate(shapes)]
    co, so = g.cg.options()
    return {"family": "shared-client-context", "group": True, "shared_ctx": True, "transport": transport, "pool": pool,
            "copts": co, "sopts": so, "nfuncs": 1, "calls": calls}


def gen_cases(ctx, reg):
    g = Gen08(ctx, reg)
    quick = ctx.tier == "quick"
    transports = QUICK_TRANSPORTS if quick else ALL_TRANSPORTS
    cases = c07.corpus_cases("C08")
    per = {"mock": 220, "tcp": 85, "http": 85} if quick else dict((t, 900 if t == "mock" else 350) for t in transports)
    for t in transports:
        for _ in range(per[t]):
            cases.append(g.make("random", t))
        for via in ("invoke", "proxy"):
            for pool in (False, True):
                for kind in ("values", "error", "panic"):
                    cases.append(g.make("matrix", t, via=via, pool=pool, kind=kind))
                cases.append(g.make("matrix-variadic", t, via=via, pool=pool, variadic=True, missing=False))
                cases.append(g.make("matrix-missing", t, via=via, pool=pool, missing=True))
        for pt in ("string", "error", "int"):
            cases.append(g.make("panic-values", t, kind="panic", panic_type=pt, missing=False))
        for msg in (b"", b"timeout", b"a", "错".encode(), b"\xff\xfe"):
            cases.append(g.make("error-messages", t, kind="error", msg=msg, missing=False, err=True))
        for arity in ("fewer", "more"):
            cases.append(g.make("arity-" + arity, t, via="invoke", arity=arity, missing=False, variadic=False, nparams=2))
        # result signatures: the error slot is any last result whose type implements error
        for et in ("", "ptrstruct", "slice", "string"):
            for kind in ("values", "error"):
                for via in ("invoke", "proxy"):
                    for nres in (0, 1, 2):
                        cases.append(g.make("error-result-type", t, via=via, kind=kind, err=True, err_type=et, nres=nres,
                                            behave="script", missing=False, rmode="match"))
        # response headers together with results that contain references (a repeated string, a shared pointer,
        # a string that also occurs in the headers), reference mode on both sides
        S, PI = T("string"), Ptr(Reg("Inner"))
        rep = hx(b"hello world")
        shapes = [([S, S], [{"t": S, "v": rep}, {"t": S, "v": rep}]),
                  ([Slice(S)], [{"t": Slice(S), "v": [rep, hx(b"x"), rep, rep]}]),
                  ([S, Slice(S), S], [{"t": S, "v": rep}, {"t": Slice(S), "v": [rep, rep]}, {"t": S, "v": hx(b"rk-value")}]),
                  ([PI, PI], [{"t": PI, "v": {"id": 910001, "v": {"X": "5", "Y": rep}}}, {"t": PI, "v": {"ref": 910001}}]),
                  ([Map(S, S)], [{"t": Map(S, S), "v": [[rep, rep]]}])]
        for rtds, values in shapes:
            for via in ("invoke", "proxy"):
                rh = [{"k": hx(b"rk"), "v": {"t": IFACE, "v": {"t": S, "v": hx(b"rk-value")}}},
                      {"k": hx(b"hello world"), "v": {"t": IFACE, "v": {"t": S, "v": rep}}}]
                cases.append(g.make("response-headers-and-references", t, via=via, kind="values", behave="script", nres=len(rtds),
                                    rtds=rtds, values=json.loads(json.dumps(values)), rmode="match", missing=False, rhdrs=rh,
                                    ref_mode=True, err=True, err_type=""))
        # concurrent calls to different functions through one client
        for pool in (False, True):
            for _ in range(3 if quick else 10):
                cases.append(make_group(ctx.rng, g, t, pool))
            for _ in range(2 if quick else 8):
                cases.append(make_shared_ctx(ctx.rng, g, t, pool))
    # many calls one after the other on ONE udp connection: the 15-bit request index wraps after 32767 calls
    co, so = g.cg.options()
    cases.append({"family": "long-sequence", "group": True, "transport": "udp", "pool": False, "copts": co, "sopts": so,
                  "nfuncs": 1, "calls": [], "seq": 33000})
    for i, c in enumerate(cases):
        c["id"] = i + 1
    return cases


# ------------------------------------------------------------------------------------------ model lines

def first_decode_error(o):
    for e in (o.get("or_hdrs") or []):
        if e["v"].startswith("ERR "):
            return e["v"][4:]
    for e in (o.get("or_args") or []):
        if e.get("err"):
            return e["err"]
    return ""


def model_line(c, o):
    c07.TYPES[0] = c["types"]
    ty_sx, opts_sx, or_sx, hdr_or_sx = c07.ty_sx, c07.opts_sx, c07.or_sx, c07.hdr_or_sx
    hs = dict((e["k"], e["v"]) for e in (o.get("hdrs_sx") or []))
    skey = hx(b"simple")
    parts = ["(copts %s)" % opts_sx(c["copts"], False), "(sopts %s)" % opts_sx(c["sopts"], True), o["heap"],
             "(lower %s)" % " ".join("(x%s x%s)" % (e["k"], e["v"]) for e in o["lower"])]
    ms = []
    for m in c["methods"]:
        ms.append("(%d x%s %d %d (params %s) %s (results %s) %d %s)" % (
            m["id"], m["name"], int(m["missing"]), int(m["ctx"]), " ".join(ty_sx(p) for p in m["params"]),
            ("(velem %s)" % ty_sx(m["velem"])) if m.get("velem") is not None else "(novelem)",
            " ".join(ty_sx(p) for p in m["results"]), int(m["err"]), m.get("behave", "script")))
    parts.append("(methods %s)" % " ".join(ms))
    parts.append("(via %s)" % c["via"])
    if c["via"] == "proxy":
        p = c["proxy"]
        parts.append("(proxy (path %s) (tag %s) (ns %s) (ctx %d) (variadic %d) (nfixed %d) (err %d))" % (
            " ".join("x" + hx(f.encode()) for f in naming_path(p)), ("x" + p["tag"]) if p["tag"] else "", ("x" + p["ns"]) if p["ns"] else "",
            int(p["ctx"]), int(p["variadic"]), p["nfixed"], int(p["err"])))
    else:
        parts.append("(call x%s)" % c["call"])
    parts.append("(args %s)" % " ".join(o.get("args_sx") or []))
    parts.append("(hdrs %s)" % " ".join("(x%s %s)" % (h["k"], hs[h["k"]]) for h in c["hdrs"]))
    parts.append("(orargs %s)" % or_sx(o.get("or_args") or [], c["want"]))
    or_h = list(o.get("or_hdrs") or [])
    if c["copts"]["simple"]:
        or_h = or_h + [{"k": skey, "v": "(bool 1)"}]
    parts.append("(orhdrs %s)" % hdr_or_sx(or_h))
    res = c["res"]
    if res["kind"] == "values":
        parts.append("(result (values %s))" % " ".join(o.get("res_sx") or []))
    elif res["kind"] == "error":
        parts.append("(result (error x%s))" % res["msg"])
    else:
        parts.append("(result (panic x%s))" % res["msg"])
    rts = rtypes_of(c)
    parts.append("(rtypes %s)" % " ".join(ty_sx(t) for t in rts))
    n_or = len(o.get("or_res") or [])
    parts.append("(orres %s)" % or_sx(o.get("or_res") or [], rts[:n_or] if len(rts) != 1 else rts))
    parts.append("(zeros %s)" % or_sx(o.get("zeros") or [], rts))
    parts.append("(stack x%s)" % STACK.hex())
    parts.append("(decerr x%s)" % first_decode_error(o).encode("utf-8", "surrogateescape").hex())
    return "(c08 " + " ".join(parts) + ")"


def group_model_lines(c):
    """one model run per call of a concurrent group: the model handles every request in its own context"""
    c07.TYPES[0] = [T("int"), T("string")]
    lines = []
    names = ["conc_f%d" % k for k in range(1, c["nfuncs"] + 1)]
    lower = " ".join("(x%s x%s)" % (hx(n.encode()), hx(n.encode())) for n in names + ["*", "~"])
    ms = " ".join("(%d x%s 0 0 (params (n 0) (n 1)) (novelem) (results (n 1) (n 0)) 1 conc)" % (k + 1, hx(n.encode()))
                  for k, n in enumerate(names))
    for call in c["calls"]:
        k, x, sh = call["f"], call["x"], call["s"]
        text, num = conc_result(k, x, bytes.fromhex(sh))
        parts = ["(copts %s)" % c07.opts_sx(c["copts"], False), "(sopts %s)" % c07.opts_sx(c["sopts"], True), "(heap)",
                 "(lower %s)" % lower, "(methods %s)" % ms]
        if call["via"] == "proxy":
            parts += ["(via proxy)", "(proxy (path x%s) (tag x%s) (ns ) (ctx 0) (variadic 0) (nfixed 2) (err 1))"
                      % (hx(("F%d" % k).encode()), hx(names[k - 1].encode()))]
        else:
            parts += ["(via invoke)", "(call x%s)" % hx(names[k - 1].encode())]
        parts += ["(args (int KInt %d) (str x%s))" % (x, sh), "(hdrs )",
                  "(orargs ((n 0) (int KInt %d)) ((n 1) (str x%s)))" % (x, sh), "(orhdrs %s)" % ("(x%s (bool 1))" % hx(b"simple") if c["copts"]["simple"] else ""),
                  "(result (values ))", "(rtypes (n 1) (n 0))",
                  "(orres ((n 1) (str x%s)) ((n 0) (int KInt %d)))" % (text.hex(), num),
                  "(zeros ((n 1) (str x)) ((n 0) (int KInt 0)))", "(stack x%s)" % STACK.hex(), "(decerr x)"]
        lines.append("(c08 " + " ".join(parts) + ")")
    return lines


def conc_result(k, x, s):
    """what function k of the concurrent family returns for (x, s): computed here, independently of the harness"""
    return b"f%d(%d," % (k, x) + s + b")", x * 100 + k


def group_verdict(c, o, models):
    """returns (property failures, model disagreements) for a concurrent group"""
    fails, dis = [], []
    if c.get("seq"):
        if o.get("seq_bad"):
            fails.append(("sequential-call-on-one-connection-fails", "%s after %d good calls on one %s connection"
                          % (o["seq_bad"][:160], o.get("seq_ok", 0), c["transport"])))
        elif o.get("seq_runs") != c["seq"]:
            fails.append(("sequential-calls-entered-function-wrong-number-of-times",
                          "%d calls, %d entries into the function" % (c["seq"], o.get("seq_runs", 0))))
        return fails, dis
    if c.get("shared_ctx"):
        for i, (call, oc) in enumerate(zip(c["calls"], o["calls"])):
            text, num = conc_result(1, call["x"], bytes.fromhex(call["s"]))
            sig = {1: "(string, int, error)", 2: "(string, error)", 3: "error", 4: "(string, int)"}[call["f"]]
            where = "call %d of %d made with one reused ClientContext on a %s client: proxy function with results %s" % (
                i + 1, len(c["calls"]), c["transport"], sig)
            want_s = text.hex() if call["f"] != 3 else ""
            want_n = num if call["f"] in (1, 4) else 0
            if oc.get("panic"):
                fails.append(("reused-context-call-panics", where + " panicked: " + oc["panic"][:120]))
            elif oc.get("failed"):
                fails.append(("reused-context-call-fails", where + " failed: " + oc.get("err", "")[:120]))
            elif oc["got_s"] != want_s or oc["got_n"] != want_n:
                fails.append(("reused-context-call-returns-wrong-results",
                              where + " returned (%r, %d); the function returns (%r, %d)"
                              % (bytes.fromhex(oc["got_s"]).decode("utf-8", "replace"), oc["got_n"],
                                 text.decode("utf-8", "replace"), num)))
        return fails, dis
    want_log = sorted((call["f"], call["x"], call["s"]) for call in c["calls"])
    got_log = sorted((e["f"], e["x"], e["s"]) for e in (o.get("log") or []))
    for i, (call, oc) in enumerate(zip(c["calls"], o["calls"])):
        text, num = conc_result(call["f"], call["x"], bytes.fromhex(call["s"]))
        where = "call %d of %d in flight together on one %s client%s: conc_f%d(%d, %r) via %s" % (
            i + 1, len(c["calls"]), c["transport"], " (worker pool)" if c["pool"] else "", call["f"], call["x"],
            bytes.fromhex(call["s"]).decode("utf-8", "replace"), call["via"])
        if oc.get("panic"):
            fails.append(("concurrent-call-panics", where + " panicked: " + oc["panic"][:120]))
        elif oc.get("failed"):
            fails.append(("concurrent-call-fails", where + " failed: " + oc.get("err", "")[:120]))
        elif oc["got_s"] != text.hex() or oc["got_n"] != num:
            fails.append(("concurrent-call-returns-another-functions-result",
                          where + " returned (%r, %d); its own function returns (%r, %d)"
                          % (bytes.fromhex(oc["got_s"]).decode("utf-8", "replace"), oc["got_n"], text.decode("utf-8", "replace"), num)))
        m = models[i]
        want_vals = "[(str x%s);(int KInt %d)]" % (text.hex(), num)
        ok_model = (m.get("r") == "res" or (m.get("p") == "ret" and m.get("perr") == "none")) and m.get("vals") == want_vals \
            and m.get("log") == "[%d:[(int KInt %d);(str x%s)]]" % (call["f"], call["x"], call["s"])
        if not ok_model:
            dis.append("model of " + where + ": " + str({k: v[:120] for k, v in m.items() if k != "_raw"}))
    if got_log != want_log:
        extra = [e for e in got_log if e not in want_log]
        missing = [e for e in want_log if e not in got_log]
        fails.append(("concurrent-call-enters-wrong-function",
                      "functions entered (function, x, s): unexpected %s, missing %s" % (extra[:3], missing[:3])))
    return fails, dis


def rtypes_of(c):
    if c["via"] == "proxy":
        return list(c["proxy"]["outs"])
    return [-1] if c.get("rt_default") else (c["rtypes"] or [])


# ------------------------------------------------------------------------------------------ expectations (independent of the model)

def expected_name(c):
    """the name the property says goes on the wire: computed here, not taken from the implementation"""
    if c["via"] == "proxy":
        p = c["proxy"]
        return hx(mangled(bytes.fromhex(p["ns"]), bytes.fromhex(p["tag"]), naming_path(p)))
    return c["call"]


def expected_target(c, o):
    low = dict((e["k"], e["v"]) for e in o["lower"])
    name = expected_name(c)
    target = low.get(name)
    if target is None:
        try:
            target = hx(bytes.fromhex(name).decode().lower().encode())
        except UnicodeDecodeError:
            target = name
    for m in c["methods"]:
        if not m["missing"] and low.get(m["name"]) == target:
            return m
    for m in c["methods"]:
        if m["missing"]:
            return m
    return None


def conforming(c, o, m):
    if m["missing"]:
        return True
    n = len(c["args"])
    fixed = len(m["params"]) - (1 if m["variadic"] else 0)
    return n >= fixed if m["variadic"] else n == fixed


def nil_iface_arg(c, o, m):
    if m["missing"]:
        return False
    for sx, w in zip(o.get("args_sx") or [], c["want"]):
        if sx == "(nil)" and (w < 0 or o["type_names"][w] == "interface {}"):
            return True
    return False


def panic_text(c):
    return c07.go_text(bytes.fromhex(c["res"]["msg"]))


def property_oracle(c, o):
    out = []
    rem, loc = o["remote"], o["local"]
    m = expected_target(c, o)
    log = o.get("log") or []
    kind = c["res"]["kind"]
    if o.get("name") and o["name"] != expected_name(c):
        out.append(("wire-name-differs", "the call went out under the name %r, the property requires %r"
                    % (bytes.fromhex(o["name"]).decode("utf-8", "replace"), bytes.fromhex(expected_name(c)).decode("utf-8", "replace"))))
    if o.get("sent", 0) != 1 and not rem.get("has_panic"):
        out.append(("requests-sent", "%d requests left the client for one call" % o.get("sent", 0)))
    if m is None:
        if not rem.get("failed") and not rem.get("has_panic"):
            out.append(("no-method-but-success", "nothing is published under the name and there is no missing-method handler, but the call succeeded"))
        if log:
            out.append(("no-method-but-invoked", "a function was entered although nothing is published under the name"))
        return out
    if not conforming(c, o, m):
        if log:
            out.append(("nonconforming-call-entered-function", "a call with the wrong number of arguments entered the function"))
        if not rem.get("failed") and not rem.get("has_panic"):
            out.append(("nonconforming-call-succeeded", "a call with the wrong number of arguments returned normally: %s" % c07.fmt_vals(rem.get("results") or [])[:120]))
        return out
    if any(e.get("err") and e.get("solo_err") for e in (o.get("or_args") or [])) or any(e["v"].startswith("ERR") for e in (o.get("or_hdrs") or [])):
        return out        # an argument that the plain io round trip cannot carry either: C01's business
    # exactly once, the right function, the right arguments
    if len(log) != 1:
        key = "function-not-entered" if not log else "function-entered-%d-times" % len(log)
        if not log and nil_iface_arg(c, o, m) and "zero Value" in (rem.get("err") or ""):
            key = "nil-interface-argument-never-reaches-function"
        out.append((key, "the function was entered %d times; caller got %s" % (len(log), (rem.get("err") or rem.get("panic") or "ok")[:100])))
        return out
    e = log[0]
    if e["id"] != m["id"]:
        out.append(("wrong-function-entered", "function #%d entered, the name resolves to #%d" % (e["id"], m["id"])))
    if m["missing"] and e.get("name") != expected_name(c):
        out.append(("missing-method-got-other-name", "missing-method handler got name %s, called %s" % (e.get("name"), o.get("name"))))
    if e.get("nil_ctx"):
        out.append(("nil-context-injected", "the function's context parameter was nil"))
    want_args = [x.get("solo", x.get("v", "")).replace("(tnil)", "(nil)") for x in o.get("or_args") or []]
    if e["args"] != want_args and any(x.get("solo_err") for x in o.get("or_args") or []):
        want_args = e["args"]       # a value that does not round-trip on its own either: C01's business
    joint_args = [x.get("v", "").replace("(tnil)", "(nil)") for x in o.get("or_args") or []]
    if e["args"] != want_args and e["args"] == joint_args:
        # the codec did what the plain io round trip of the argument list does: the known C07 finding
        # (a pointer shared between arguments of different static types), not a C08 matter
        return out + [("@c07-domain", "")]
    if e["args"] != want_args:
        shared = len(set(re.findall(r"\(ptr (\d+)\)", " ".join(o.get("args_sx") or [])))) < len(re.findall(r"\(ptr (\d+)\)", " ".join(o.get("args_sx") or [])))
        key = "pointer-shared-between-arguments-of-different-static-types-decoded-wrong" if shared else "argument-values-differ"
        out.append((key, "entered with %s, passed %s" % (str(e["args"])[:200], str(want_args)[:200])))
    # outcome
    rts = rtypes_of(c)
    perr = c["proxy"]["err"] if c["via"] == "proxy" else True
    if kind in ("error", "panic") or (m["missing"] and kind != "values"):
        want = panic_text(c)
        if kind == "panic" and c["sopts"]["debug"]:
            ok = (rem.get("err") or rem.get("panic") or "").startswith(want + "\r\n")
        else:
            got = rem.get("err", "") if rem.get("failed") else rem.get("panic", "")
            ok = got == want or (rem.get("has_panic") and want == "" and got == "panic")
        if not rem.get("failed") and not rem.get("has_panic"):
            out.append(("%s-lost" % kind, "the function %s with %r but the caller got a normal return %s"
                        % ("returned an error" if kind == "error" else "panicked", want[:40], c07.fmt_vals(rem.get("results") or [])[:100])))
        elif not perr and not rem.get("has_panic"):
            out.append(("proxy-without-error-slot-returned", "a proxy without an error slot returned although the call failed"))
        elif not ok:
            out.append(("%s-message-differs" % kind, "caller got %r, the function's was %r" % ((rem.get("err") or rem.get("panic") or "")[:60], want[:60])))
        return out
    # values
    errval = any(sx.startswith("(err ") for sx in (o.get("res_sx") or [])) and len(o.get("res_sx") or []) == 1
    if rem.get("has_panic"):
        nil_res = "(nil)" in [x.get("v") for x in (o.get("or_res") or [])]
        key = "nil-interface-result-panics-in-proxy" if nil_res and "zero Value" in rem.get("panic", "") else "caller-panics:" + c07.norm(rem.get("panic", ""))
        out.append((key, "the function returned normally but the proxy function panicked in the caller: " + rem.get("panic", "")[:120]))
        return out
    if rem.get("failed"):
        if errval:
            out.append(("error-value-result-becomes-error", "a result that is an error VALUE is delivered as a failed call (%r)" % rem.get("err", "")[:60]))
        elif not any(x.get("err") for x in (o.get("or_res") or [])):
            out.append(("success-became-error:" + c07.norm(rem.get("err", "")), "the function returned normally but the caller got the error %r" % rem.get("err", "")[:120]))
        return out
    if any(x.get("err") for x in (o.get("or_res") or [])):
        return out
    want_res = expected_results(c, o, rts)
    got = [x["v"] for x in rem.get("results") or []]
    if want_res is not None and got != want_res:
        out.append(("result-values-differ", "caller got %s, the function returned (in the caller's types) %s" % (str(got)[:200], str(want_res)[:200])))
    return out


def expected_results(c, o, rts):
    """what the caller is entitled to: the function's results in the declared types (plain io round trip), zero values
    for declared types beyond them; None when the declaration does not match the results (no claim)"""
    orr = [x["v"].replace("(tnil)", "(nil)") for x in (o.get("or_res") or [])]
    zeros = [x["v"] for x in (o.get("zeros") or [])]
    if len(rts) == 0:
        return []
    if len(rts) == 1:
        return orr[:1] if orr else None
    nres = len(o.get("res_sx") or []) if c["methods"][0].get("behave") != "echo" else len(c["methods"][0]["results"])
    if c["methods"][0]["missing"]:
        nres = len(o.get("res_sx") or [])
    if nres < 2:
        return None
    k = min(nres, len(rts))
    if c["via"] == "invoke":
        return orr[:k] + zeros[k:]
    return orr[:k] + zeros[k:]


# ------------------------------------------------------------------------------------------ comparison with the model

def fmt_log(log):
    out = []
    for e in log:
        if e.get("missing"):
            out.append("%d:[(str x%s);(slice%s)]" % (e["id"], e.get("name", ""), "".join(" " + a for a in e["args"])))
        else:
            out.append("%d:[%s]" % (e["id"], ";".join(e["args"])))
    return "[" + ";".join(out) + "]"


def compare(c, o, m):
    dis = []
    if "MODEL-ERROR" in m.get("_raw", ""):
        return ["model driver failed: " + m["_raw"][:200]]
    rem = o["remote"]
    if m.get("r", "").startswith("TYPE-MISMATCH"):
        return ["parameter typing: " + m["r"]]
    if o.get("name") and m.get("name") != o["name"]:
        dis.append("name on the wire: model %s go %s" % (m.get("name"), o["name"]))
    if m.get("log") != fmt_log(o.get("log") or []):
        dis.append("invocation log: model %s go %s" % (m.get("log", "")[:300], fmt_log(o.get("log") or [])[:300]))
    if any(e["v"].startswith("ERR") for e in (o.get("or_hdrs") or [])):
        # a request header the service's options cannot decode: the call must fail without entering a function; which
        # error text it fails with depends on where the io decoder stopped (C01/C06's business)
        if not rem.get("failed") and not rem.get("has_panic"):
            dis.append("model: the request headers cannot be decoded; the call succeeded")
        return dis
    if any(x.get("err") for x in (o.get("or_res") or [])):
        return dis      # a result the plain io round trip cannot carry into the declared type either: C01/C06's business
    if re.search(r"\(bigfloat x(2b|2d)496e66\)", m.get("log", "") + " ".join(x.get("v", "") for x in (o.get("or_res") or []))):
        return dis      # an infinite big.Float (a float Inf decoded under RealType=BigFloat) is outside the encoder model (Enc.GBigFloat)
    got_vals = c07.fmt_vals(rem.get("results") or [])
    debug_panic = c["sopts"]["debug"] and c["res"]["kind"] == "panic"
    if c["via"] == "invoke":
        r = m.get("r")
        if r == "res":
            if rem.get("failed") or rem.get("has_panic"):
                dis.append("model: results %s; caller got %s" % (m.get("vals", "")[:160], (rem.get("err") or rem.get("panic") or "")[:160]))
            elif m.get("vals") != got_vals:
                dis.append("results: model %s go %s" % (m.get("vals", "")[:300], got_vals[:300]))
        elif r == "err":
            want = c07.go_text(bytes.fromhex(m.get("emsg", "")))
            if not rem.get("failed"):
                dis.append("model: error %r; caller got a normal return" % want[:80])
            elif debug_panic or "reflect: Call" in want and c["sopts"]["debug"]:
                if not rem.get("err", "").startswith(want.split("\r\n")[0]):
                    dis.append("error text (debug): model %r go %r" % (want[:80], rem.get("err", "")[:80]))
            elif rem.get("err", "") != want:
                dis.append("error text: model %r go %r" % (want[:80], rem.get("err", "")[:80]))
            elif (m.get("timeout") == "1") != (rem.get("err_kind") == "timeout"):
                dis.append("ErrTimeout mapping: model %s go %s" % (m.get("timeout"), rem.get("err_kind")))
        elif r == "fail":
            if not rem.get("failed") and not rem.get("has_panic"):
                dis.append("model: the codecs fail; the call succeeded")
        else:
            dis.append("model result: %r" % r)
    else:
        p = m.get("p")
        if p == "ret":
            if rem.get("has_panic"):
                dis.append("model: proxy returns; the proxy function panicked: %s" % rem.get("panic", "")[:160])
            else:
                if m.get("vals") != got_vals:
                    dis.append("proxy results: model %s go %s" % (m.get("vals", "")[:300], got_vals[:300]))
                if m.get("perr") == "none":
                    if rem.get("failed"):
                        dis.append("model: nil error; proxy returned error %r" % rem.get("err", "")[:80])
                else:
                    want = c07.go_text(bytes.fromhex(m.get("perr", "")))
                    if not rem.get("failed"):
                        dis.append("model: error %r; proxy returned nil error" % want[:80])
                    elif c["sopts"]["debug"] and ("\r\n" in want or "reflect: Call" in want):
                        if not rem.get("err", "").startswith(want.split("\r\n")[0]):
                            dis.append("proxy error text (debug): model %r go %r" % (want[:80], rem.get("err", "")[:80]))
                    elif rem.get("err", "") != want:
                        dis.append("proxy error text: model %r go %r" % (want[:80], rem.get("err", "")[:80]))
        elif p == "panic":
            want = c07.go_text(bytes.fromhex(m.get("pmsg", "")))
            if not rem.get("has_panic"):
                dis.append("model: the proxy function panics with %r; it returned" % want[:80])
            elif c["sopts"]["debug"] and ("\r\n" in want or "reflect: Call" in want):
                if not rem.get("panic", "").startswith(want.split("\r\n")[0]):
                    dis.append("proxy panic text (debug): model %r go %r" % (want[:80], rem.get("panic", "")[:80]))
            elif rem.get("panic", "") != want and not (want == "" and rem.get("panic", "") == "panic"):
                dis.append("proxy panic text: model %r go %r" % (want[:80], rem.get("panic", "")[:80]))
        else:
            dis.append("model proxy result: %r" % p)
    return dis


# ------------------------------------------------------------------------------------------ the run

def run_cases(ctx, cases):
    obs_by_id, crashes = {}, []
    # the executor sleeps a little around every real server: run several in parallel
    nproc = 6
    chunks = [cases[i::nproc] for i in range(nproc)]
    from concurrent.futures import ThreadPoolExecutor
    with ThreadPoolExecutor(max_workers=nproc) as ex:
        res = list(ex.map(lambda ch: hv.run_harness_resilient("c08", ch, timeout=1500) if ch else ({}, []), chunks))
    for ob, cr in res:
        obs_by_id.update(ob)
        crashes += cr
    done = [c for c in cases if c["id"] in obs_by_id and not obs_by_id[c["id"]].get("build_err") and not obs_by_id[c["id"]].get("env")]
    lines, owner = [], []
    for c in done:
        ls = (group_model_lines(c) if not (c.get("seq") or c.get("shared_ctx")) else []) if c.get("group") else [model_line(c, obs_by_id[c["id"]])]
        lines += ls
        owner += [c["id"]] * len(ls)
    outs = hv.run_model("c08", lines) if lines else []
    models = {}
    for cid, out in zip(owner, outs):
        d = c07.parse_kv(out)
        d["_raw"] = out if out.startswith("MODEL-ERROR") else ""
        models.setdefault(cid, []).append(d)
    for c in done:
        if not c.get("group"):
            models[c["id"]] = models[c["id"]][0]
    return obs_by_id, models, crashes, done


def run(ctx):
    ctx.level = "proof"
    ctx.assumptions += [
        "C01 (typed round trip), C12 (transports deliver exactly the bytes sent, once) and C09 (own response) are premises of the "
        "C08 theorems; in the correspondence run the io decoder is instantiated per case by the plain io round trip of each value",
        "a worker pool only changes which goroutine runs Service.Handle; the model has no goroutines",
        "environment errors (ports, sockets, deadlines) are retried and counted as inconclusive, never reported",
    ]
    ctx.prove()
    hv.build_harness("c08")
    hv.build_modelrun("c08")
    reg = iogen.load_registry(os.path.join(hv.HBIN, "hv-c08"))
    cases = gen_cases(ctx, reg)
    obs_by_id, models, crashes, done = run_cases(ctx, cases)
    for c, rc, err in crashes:
        mm = re.search(r"(fatal error:[^\n]*|panic:[^\n]*|SIG[A-Z]+[^\n]*)", err)
        ctx.report("c08:process-killed:" + c07.norm(mm.group(1) if mm else "unknown"),
                   "the executor process died while running a case: " + (mm.group(1) if mm else err[:200]),
                   {"case": c, "stderr": err[:1500], "failing_input": True})
    env = 0
    for c in cases:
        o = obs_by_id.get(c["id"])
        if o and o.get("env"):
            env += 1
            ctx.bump("environment_inconclusive", c["transport"])
        if o and o.get("build_err"):
            ctx.bump("generator_build_errors")
            if ctx.cov.get("generator_build_errors", 0) <= 3:
                ctx.note("build_err_example_%d" % ctx.cov["generator_build_errors"], o["build_err"][:200])
    validated, disagreements, pure = 0, [], []
    for c in done:
        o, m = obs_by_id[c["id"]], models.get(c["id"], [])
        if c.get("group"):
            ctx.count_case(json.dumps(c, sort_keys=True), True)
            ctx.bump("cases_by_transport", c["transport"] + ("+pool" if c["pool"] else ""))
            if c.get("seq"):
                ctx.note("sequential_calls_on_one_%s_connection" % c["transport"], o.get("seq_ok", 0))
            else:
                ctx.bump("concurrent_groups", "overlapping" if o.get("overlap", 0) == len(c["calls"]) else "not-overlapping")
                ctx.bump("concurrent_calls", None, len(c["calls"]))
            fails, dis = group_verdict(c, o, m)
            for key, what in fails:
                ctx.report("c08:" + key, what, {"case": c, "observed": o, "failing_input": True})
            if dis:
                disagreements.append((c, o, {}, dis))
                if not fails:
                    pure.append((c, o, {}, dis))
            elif not fails:
                validated += 1
            continue
        canon = json.dumps({k: c[k] for k in ("transport", "pool", "copts", "sopts", "methods", "via", "call", "proxy", "args", "hdrs", "res", "rtypes")}, sort_keys=True)
        nontrivial = bool(c["args"]) or c["res"]["kind"] != "values" or bool(c["res"]["values"])
        ctx.count_case(canon, nontrivial)
        ctx.bump("cases_by_transport", c["transport"] + ("+pool" if c["pool"] else ""))
        ctx.bump("cases_by_via", c["via"])
        ctx.bump("cases_by_outcome", c["res"]["kind"])
        dis = compare(c, o, m)
        fails = property_oracle(c, o)
        if any(k == "@c07-domain" for k, _ in fails):
            ctx.bump("c07_domain_shared_pointer_between_arguments")
            continue
        for key, what in fails:
            ctx.report("c08:" + key, what + " [transport %s%s, via %s]" % (c["transport"], "+pool" if c["pool"] else "", c["via"]),
                       {"case": c, "observed": c07.slim(o), "model": m, "failing_input": True})
        if dis:
            disagreements.append((c, o, m, dis))
            ctx.bump("disagreement_kinds", c["family"] + ": " + re.sub(r"[0-9a-f]{6,}", "..", dis[0])[:70])
            if not fails:
                pure.append((c, o, m, dis))
        elif not fails:
            validated += 1
            if len(ctx.cov["samples"]) < 6 and nontrivial and ctx.rng.random() < 0.03:
                ctx.sample({"transport": c["transport"], "via": c["via"], "name": bytes.fromhex(o.get("name") or c["call"]).decode("utf-8", "replace"),
                            "log": fmt_log(o.get("log") or [])[:200], "results": c07.fmt_vals(o["remote"].get("results") or [])[:200],
                            "error": o["remote"].get("err")})
    ctx._disagreements = disagreements
    ctx.note("traces_validated_against_impl", validated)
    ctx.note("cases", len(done))
    ctx.note("inconclusive_environment", env)
    ctx.note("rule", "signature shapes (0-3 parameters of ~40 types, variadic, context-taking, with/without error result, 0-3 results, "
             "echo or scripted functions, missing-method handler) x argument values x names (case, non-ASCII, namespaces, name tags, nested "
             "proxy fields) x transports x worker pool on/off x UseService proxy / InvokeContext x codec options x outcomes (values / error / "
             "panic with string, error and int values); non-trivial = has arguments, results or a failure; distinct by the whole case")
    if pure:
        c, o, m, dis = pure[0]
        ctx.report("c08:correspondence", "Model/Call.v no longer matches the library (%d cases; first: %s)" % (len(pure), dis[0][:300]),
                   {"case": c, "observed": c07.slim(o), "model": m, "disagreements": dis[:5], "failing_input": False,
                    "correspondence": "Call.invoke/proxy_call vs rpc/core client, proxy, service", "disagreeing_cases": len(pure)})
    if disagreements:
        ctx.note("model_disagreements_on_cases_with_reported_failures", len(disagreements) - len(pure))


def replay(ctx, path):
    r = json.load(open(path))
    hv.build_harness("c08")
    hv.build_modelrun("c08")
    c = r["case"]
    c.setdefault("id", 1)
    obs_by_id, models, crashes, done = run_cases(ctx, [c])
    if crashes:
        print("executor died:", crashes[0][2][:300])
        return 1
    o = obs_by_id[c["id"]]
    if o.get("env") or o.get("build_err"):
        print("inconclusive:", o.get("env") or o.get("build_err"))
        return 0
    m = models.get(c["id"], {})
    fails = property_oracle(c, o)
    dis = compare(c, o, m) if m else []
    print("name   :", bytes.fromhex(o.get("name") or c["call"]).decode("utf-8", "replace"))
    print("local  :", o["local"].get("err") or o["local"].get("panic") or "ok", c07.fmt_vals(o["local"].get("results") or [])[:300])
    print("remote :", o["remote"].get("err") or o["remote"].get("panic") or "ok", c07.fmt_vals(o["remote"].get("results") or [])[:300])
    print("log    :", fmt_log(o.get("log") or [])[:300])
    print("property oracle:", fails)
    print("model disagreements:", dis)
    return 1 if fails or dis else 0
