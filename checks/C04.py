"""C04 decoding untrusted bytes never crashes, hangs or over-allocates.

Proof: Props/C04.v over Model/DecBytes.v (byte-level model of Decoder.Decode into a destination
shape, with explicit panic sites, step / allocation / spin counters, and the RPC codec wrappers).
Correspondence: the REAL Unmarshal / serviceCodec.Decode / clientCodec.Decode run under recover()
and a watchdog on hostile inputs (harness/cmd/c04) against the extracted model: agreement on the
outcome class (value / error / panic site / blow-up).  Property oracle (independent of the model):
no panic, no fatal error, no watchdog kill (time / memory), TotalAlloc <= K*len(input)+K0, the
decoded value respects Go's own invariants.

Keys: one per distinct site = innermost /repo frame + class, e.g.
  io.decoderRefer.Read:index-out-of-range     hang:io.arrayDecoder.Decode     overalloc:io.sliceDecoder.Decode"""
import json
import os
import re
import resource

import hv

try:    # the extracted model recurses as deep as the input nests
    _soft, _hard = resource.getrlimit(resource.RLIMIT_STACK)
    _want = 4 << 30
    resource.setrlimit(resource.RLIMIT_STACK, (_want if _hard == resource.RLIM_INFINITY else min(_want, _hard), _hard))
except Exception:
    pass

K_ALLOC = 256          # bytes of TotalAlloc per input byte ...
K0_ALLOC = 1 << 17     # ... plus this much (measured on the valid seed streams: see evidence "valid_alloc")
HEAVY_STEPS = 2 * 10 ** 7
HEAVY_ALLOC = 1 << 24
HANG_STEPS = 5 * 10 ** 9       # model steps above which the executor's 4 s watchdog must fire
FAST_STEPS = 10 ** 6           # below this a watchdog timeout is not expected

# ------------------------------------------------------------------ shapes

REG = {
    "Pt": [("x", {"k": "int"}), ("y", {"k": "int"})],
    "User": [("name", {"k": "string"}), ("age", {"k": "int"}), ("tags", {"k": "slice", "e": {"k": "string"}}),
             ("extra", {"k": "iface"}), ("p", {"k": "ptr", "e": {"k": "reg", "name": "Pt"}})],
}
NUM = {"bool": "nb", "int": "ni0", "int8": "ni8", "int16": "ni16", "int32": "ni32", "int64": "ni64",
       "uint": "nu0", "uint8": "nu8", "uint16": "nu16", "uint32": "nu32", "uint64": "nu64",
       "float32": "nf32", "float64": "nf64"}


def shape(td):
    """model shape of a type descriptor, or None when the model does not cover it"""
    k = td["k"]
    if k in NUM:
        return NUM[k]
    if k == "iface":
        return "I"
    if k == "string":
        return "s"
    if k == "bytes":
        return "y"
    if k == "time":
        return "t"
    if k == "uuid":
        return "g"
    if k in ("bigint", "bigfloat", "bigrat"):
        return {"bigint": "Bi", "bigfloat": "Bf", "bigrat": "Br"}[k]
    if k == "slice":
        if td["e"]["k"] == "uint8":
            return "y"
        e = shape(td["e"])
        return None if e is None else "L" + e
    if k == "ptr":
        e = shape(td["e"])
        return None if e is None else "P" + e
    if k == "array":
        e = shape(td["e"])
        return None if e is None else "A%d:%s" % (td["n"], e)
    if k == "map":
        a, b = shape(td["key"]), shape(td["e"])
        if a is None or b is None or td["key"]["k"] in ("bytes", "slice", "map", "ptr", "array", "anon", "reg",
                                                        "time", "uuid", "bigint", "bigfloat", "bigrat"):
            return None
        return "M" + a + b
    if k == "reg":
        if td["name"] not in REG:
            return None           # a registered type outside the model's registry (Key, HKey, Labels, Node)
        fs = [(n, shape(t)) for n, t in REG[td["name"]]]
        return "S" + td["name"].encode().hex() + "{" + ";".join(n.encode().hex() + ":" + s for n, s in fs) + "}"
    if k == "anon":
        fs = []
        for f in td["fields"]:
            s = shape(f["t"])
            if s is None:
                return None
            alias = f["n"][0].lower() + f["n"][1:]
            fs.append(alias.encode().hex() + ":" + s)
        return "S{" + ";".join(fs) + "}"
    return None


# ------------------------------------------------------------------ keys

SITE_KEY = {
    "ref-index": "io.decoderRefer.Read:index-out-of-range",
    "class-index": "io.Decoder.getStructInfo:index-out-of-range",
    "make-neg-names": "io.Decoder.ReadStruct:makeslice-len-out-of-range",
    "make-neg-uint8": "io.Decoder.readUint8Slice:makeslice-len-out-of-range",
    "make-neg-args": "core.serviceCodec.decodeArguments:makeslice-len-out-of-range",
    "make-neg-str": "io.Decoder.readStringAsBytes:makeslice-cap-out-of-range",
    "alloc-range-names": "io.Decoder.ReadStruct:makeslice-len-out-of-range",
    "alloc-range-uint8": "io.Decoder.readUint8Slice:makeslice-len-out-of-range",
    "alloc-range-args": "core.serviceCodec.decodeArguments:makeslice-len-out-of-range",
    "alloc-range-slice": "io.sliceDecoder.Decode:allocation-size-out-of-range",
    "alloc-range-map": "io.mapDecoder.decodeMap:allocation-size-out-of-range",
    "alloc-range-next": "io.Decoder.next:makeslice-cap-out-of-range",
    "alloc-range-str": "io.Decoder.readStringAsBytes:makeslice-cap-out-of-range",
    "next-neg": "io.Decoder.next:slice-bounds-out-of-range",
    "str-index": "io.Decoder.checkUTF8String:index-out-of-range",
    "str-slice": "io.Decoder.fastReadStringAsBytes:slice-bounds-out-of-range",
    "bigrat-nil": "io.Decoder.decodeBigRat:nil-deref",
    "unhashable": "io.mapDecoder.decodeMap:unhashable-key",
    "ref-nil-set": "io.assignTo:reflect-Set-zero-Value",
    "ref-nil-kind": "io.GetConverter:nil-deref",
    "objmap-field": "io.mapDecoder.decodeObjectAsMap:nil-deref",
    "objmap-key": "fatal:memory-corruption:io.mapDecoder.decodeObjectAsMap",
    "client-count": "core.clientCodec.Decode:index-out-of-range",
    "array-neg": "io.arrayDecoder.Decode:out-of-bounds-write",
    "big-exp": "overalloc:io.Decoder.decodeBigInt",      # or io.Decoder.stringToBigRat: a cost failure, not a panic
}
FATAL_SITES = {"objmap-key", "array-neg"}      # the runtime dies (or the heap is silently damaged): such cases run in a process of their own

PANIC_CLASSES = [
    (r"index out of range", "index-out-of-range"),
    (r"slice bounds out of range", "slice-bounds-out-of-range"),
    (r"makeslice: len out of range", "makeslice-len-out-of-range"),
    (r"makeslice: cap out of range", "makeslice-cap-out-of-range"),
    (r"allocation size out of range", "allocation-size-out-of-range"),
    (r"nil pointer dereference", "nil-deref"),
    (r"hash of unhashable type", "unhashable-key"),
    (r"reflect.Value.Set on zero Value", "reflect-Set-zero-Value"),
    (r"reflect\.Set: value of type", "reflect-Set-type-mismatch"),
    (r"interface conversion", "interface-conversion"),
    (r"assignment to entry in nil map", "nil-map-write"),
    (r"out of memory|cannot allocate memory", "out-of-memory"),
    (r"nameOff|typeOff|name offset|type offset|unexpected fault address|SIGSEGV|SIGBUS|bad pointer|invalid pointer|"
     r"unexpected signal|found pointer to free object|misrounded|corrupt|invalid memory address", "memory-corruption"),
    (r"stack overflow|stack exceeds", "stack-overflow"),
]

OWNER = re.compile(r"(Decoder\.next$|Decoder\.Next$|readStringAsBytes$|ReadStruct$|readUint8Slice$|decodeArguments$|sliceDecoder\.Decode$|"
                   r"arrayDecoder\.Decode$|byteArrayDecoder\.Decode$|mapDecoder\.decodeMap$|decodeListAsMap$|decodeObjectAsMap$|"
                   r"decodeMapAsObject$|listDecoder\.Decode$|readObject$|readObjectAsMap$|decodeObject$|clientCodec\.Decode$|"
                   r"strConverter$|decodeBigInt$|stringToBigRat$|stringToBigInt$|stringToBigFloat$)")


def panic_class(msg):
    for pat, cl in PANIC_CLASSES:
        if re.search(pat, msg):
            return cl
    return re.sub(r"[^A-Za-z0-9]+", "-", msg)[:40].strip("-")


def norm_owner(f):
    return {"io.Decoder.Next": "io.Decoder.next", "io.byteArrayDecoder.Decode": "io.arrayDecoder.Decode"}.get(f, f)


def fatal_class(err):
    head = err[:600]
    if re.search(r"out of memory|cannot allocate memory", head):
        return "out-of-memory"
    if re.search(r"stack overflow|stack exceeds", head):
        return "stack-overflow"
    if re.search(r"concurrent map", head):
        return "concurrent-map-access"
    if re.search(r"checkptr", head):
        return "checkptr"
    return "memory-corruption"        # nameOff / typeOff out of range, SIGSEGV in the runtime, bad pointer in the heap ...


def loop_owner(frames):
    """the function that owns the loop / the allocation: the innermost frame among the known owners"""
    for f in frames or []:
        if OWNER.search(f):
            return f
    return (frames or ["?"])[0]


def stderr_frames(err):
    """/repo frames of the crashing goroutine in a fatal runtime dump, innermost first"""
    out = []
    pre = "github.com/hprose/hprose-golang/v3/"
    for ln in err.split("\n"):
        if not ln.startswith(pre):
            continue
        fn = ln[len(pre):].split(" ")[0]
        i = fn.rfind("(")
        if i > 0 and not fn.endswith(")") or fn.endswith("(...)"):
            fn = fn[:fn.rfind("(")]
        elif i > 0 and fn.endswith(")") and not fn[:i].endswith(".") :
            fn = fn[:i]
        fn = fn.split("/")[-1].replace("(*", "").replace(")", "").replace("(", "")
        if fn and fn not in out[-1:]:
            out.append(fn)
        if len(out) >= 40:
            break
    return out


def impl_verdict(case, o, crash):
    """(class, key, what): class in value / error / panic / fatal; key names the failing site (None when fine)"""
    n = len(case["hex"]) // 2
    if o is None:
        rc, err = crash[1], crash[2]
        if "executor watchdog: timeout" in err:
            own = loop_owner(crash[3] if len(crash) > 3 else [])
            if own == "io.strConverter":     # fmt.Sprint of a map that contains itself: killed before the 1 GB stack limit
                return "fatal", "fatal:stack-overflow:io.strConverter", "unbounded recursion (watchdog fired before the stack limit)"
            return "fatal", "hang:" + own, "no result within the watchdog's 4 s"
        if "executor watchdog: memory" in err:
            return "fatal", "overalloc:" + norm_owner(loop_owner(crash[3] if len(crash) > 3 else [])), "heap above 1 GiB"
        cl = fatal_class(err)
        fr = (crash[3] if len(crash) > 3 and crash[3] else stderr_frames(err))
        if cl == "out-of-memory":
            return "fatal", "overalloc:" + norm_owner(loop_owner(fr)), "the runtime ran out of memory (fatal error, rc %s)" % rc
        if cl == "stack-overflow":
            # the dump elides the middle of a deep stack: name the recursion by the /repo function that starts it
            own = [f for f in fr if OWNER.search(f)]
            fr = own[:1] or (["io.strConverter"] if "strConverter" in err else fr)
        if cl == "memory-corruption" and fr and fr[0] == "io.arrayDecoder.Decode":
            return "fatal", "io.arrayDecoder.Decode:out-of-bounds-write", "the executor process died (rc %s): %s" % (rc, err[:160])
        return "fatal", "fatal:%s:%s" % (cl, fr[0] if fr else "?"), "the executor process died (rc %s): %s" % (rc, err[:160])
    if o["outcome"] == "panic" and o.get("frame") == "io.arrayDecoder.Decode" and panic_class(o.get("panic", "")) == "nil-deref":
        return "panic", "io.arrayDecoder.Decode:out-of-bounds-write", "panic: " + o.get("panic", "")[:120]
    if o["outcome"] == "panic":
        return "panic", "%s:%s" % (o.get("frame") or "?", panic_class(o.get("panic", ""))), "panic: " + o.get("panic", "")[:120]
    if o["outcome"] == "builderr":
        return "builderr", None, o.get("err", "")
    cl = o["outcome"]
    if o.get("corrupt"):
        return cl, "corrupt-value:" + re.sub(r"[-0-9]+", "N", o["corrupt"]).replace(" ", "-"), "decoded value breaks a Go invariant: " + o["corrupt"]
    if o["alloc"] > K_ALLOC * n + K0_ALLOC:
        return cl, "overalloc:" + norm_owner(loop_owner([f for f in (o.get("alloc_at") or "").split(";") if f])), "TotalAlloc %d for %d input bytes" % (o["alloc"], n)
    return cl, None, ""


# ------------------------------------------------------------------ running both sides

def has_iface(td):
    """does a value of this type hold an interface{} anywhere (the only place the decoder options act)"""
    if td is None:
        return False
    k = td["k"]
    if k == "iface":
        return True
    if k == "reg":
        return td["name"] != "Pt"
    if k == "anon":
        return any(has_iface(f["t"]) for f in td["fields"])
    return has_iface(td.get("e")) or has_iface(td.get("key"))


def modelled(c):
    """the Coq model covers the hprose codec with the default decoder options; the options (ListType, StructType,
    MapType, LongType, RealType) only act where a value is decoded into interface{}"""
    if c["entry"] not in ("unmarshal", "reader", "service", "client"):
        return False
    if c.get("o"):
        if c["entry"] not in ("unmarshal", "reader") or has_iface(c["t"]):
            return False
    b = bytes.fromhex(c["hex"])
    if any(nm in b for nm in (b'Key', b'Labels', b'Node')):
        return False              # classes the executor registers beyond the model's registry (Pt, User)
    return True


def model_line(c, fixbits, checked, table):
    if not modelled(c):
        return None
    # "reader": the same bytes through UnmarshalFromReader; by C05 the outcome is that of the in-memory decode
    ent = {"unmarshal": "U", "reader": "U", "service": "S", "client": "C"}[c["entry"]]
    if ent == "U":
        mode = "s" if c.get("mode") != "ref" else "r"
        shp = shape(c["t"])
    elif ent == "S":
        mode = c.get("svc", "a")
        shp = "-"
    else:
        mode = "-"
        shps = [shape(t) for t in c.get("rt", [])]
        shp = None if any(s is None for s in shps) else ("+".join(shps) or "-")
    if shp is None:
        return None
    return " ".join([ent, mode, fixbits, checked, c["hex"] or "-", shp] + table)


def parse_model(out):
    toks = out.split()
    m = {"class": toks[0] if toks else "MODEL-ERROR", "raw": out}
    for t in toks[1:]:
        if "=" in t:
            k, v = t.split("=", 1)
            m[k] = int(v) if re.fullmatch(r"-?\d+", v) else v
    return m


def run_model(cases, fixbits, checked, oracle_cache):
    """model verdicts; the library-parser answers the model asks for come from the executor"""
    res = {}
    todo = [c for c in cases]
    tables = {c["id"]: [] for c in cases}
    for _round in range(12):
        lines, idx = [], []
        for c in todo:
            ln = model_line(c, fixbits, checked, tables[c["id"]])
            if ln is None:
                res[c["id"]] = {"class": "unmod:shape", "raw": ""}
            else:
                lines.append(ln)
                idx.append(c)
        if not lines:
            break
        outs = hv.run_model("c04", lines)
        asks, again = [], []
        for c, o in zip(idx, outs):
            m = parse_model(o)
            if m["class"].startswith("ask:"):
                _, kind, hx = m["class"].split(":")
                hx = "" if hx == "-" else hx
                if (kind, hx) not in oracle_cache:
                    asks.append((kind, hx))
                again.append((c, kind, hx))
            else:
                res[c["id"]] = m
        if asks:
            asks = sorted(set(asks))
            oc = [{"id": i, "entry": "oracle", "kind": k, "hex": h} for i, (k, h) in enumerate(asks)]
            rc, obs, err = hv.run_harness("c04", oc)
            if rc != 0 or len(obs) != len(oc):
                raise hv.EnvError("c04 oracle executor failed: " + err[-500:])
            for (k, h), ob in zip(asks, obs):
                oracle_cache[(k, h)] = bool(ob["ok"])
        todo = []
        for c, kind, hx in again:
            tables[c["id"]].append("%s:%s:%d" % (kind, hx, 1 if oracle_cache[(kind, hx)] else 0))
            todo.append(c)
        if not todo:
            break
    for c in todo:
        res.setdefault(c["id"], {"class": "unmod:oracle-rounds", "raw": ""})
    return res


def run_impl(cases, max_crashes):
    obs, crashes = hv.run_harness_resilient("c04", cases, timeout=3000, max_crashes=max_crashes)
    cr = {}
    for c, rc, err in crashes:
        cr[c["id"]] = [c, rc, err, []]
    return obs, cr


AS_LIMIT = [6 << 30]


def _limit_as():
    # an allocation of tens of GB announced by a dozen bytes must fail at once (fatal "out of memory" with the
    # stack of the allocating goroutine) instead of being mapped lazily: 6 GiB of address space for the executor
    try:
        resource.setrlimit(resource.RLIMIT_AS, (AS_LIMIT[0], AS_LIMIT[0]))
    except Exception:
        pass


def build_checkptr():
    """a second executor compiled with -d=checkptr: unsafe pointer arithmetic that leaves its allocation (an index
    beyond a slice that was not grown, a write before an array) is a fatal error instead of silent damage"""
    hd = os.path.join(hv.V, "harness")
    out = os.path.join(hv.HBIN, "hv-c04-cp")
    cmd = ["go", "build", "-gcflags=all=-d=checkptr", "-tags", "verif", "-o", out]
    if hv.ALT:
        cmd.append("-modfile=" + os.path.join(hv.BUILD, "alt-" + hv.ALT, "go.mod"))
    with hv.Lock("go" + hv.ALT):
        rc, o, e = hv.sh(cmd + ["./cmd/c04"], cwd=hd, env=hv.GOENV, timeout=1800)
    if rc != 0:
        raise hv.EnvError("checkptr build of the c04 executor failed: " + e[-2000:])
    return out


def run_impl_frames(cases, max_crashes, max_hangs=8, exe_name="hv-c04"):
    """like run_harness_resilient, but keeps the /repo frames the executor's watchdog printed"""
    import subprocess
    obs_by_id, crashes = {}, {}
    hangs = 0
    todo = list(cases)
    exe = os.path.join(hv.HBIN, exe_name)
    while todo:
        inp = "".join(json.dumps(c, separators=(",", ":")) + "\n" for c in todo)
        try:
            p = subprocess.run([exe], input=inp, stdout=subprocess.PIPE, stderr=subprocess.PIPE, text=True, timeout=3000,
                               preexec_fn=_limit_as)
            rc, so, se = p.returncode, p.stdout, p.stderr
        except subprocess.TimeoutExpired:
            rc, so, se = 124, "", "TIMEOUT"
        fatal = None
        n_ok = 0
        for ln in so.split("\n"):
            if not ln.strip():
                continue
            try:
                o = json.loads(ln)
            except Exception:
                continue
            if o.get("fatal"):
                fatal = o
            else:
                obs_by_id[o["id"]] = o
                n_ok += 1
        if rc == 0 and n_ok >= len(todo) and fatal is None:
            break
        idx = next((i for i, c in enumerate(todo) if c["id"] not in obs_by_id), None)
        if idx is None:
            break
        c = todo[idx]
        if fatal is not None and fatal["id"] == c["id"]:
            crashes[c["id"]] = [c, rc, "fatal error: case exceeded the executor watchdog: " + fatal["fatal"], fatal.get("frames", [])]
            hangs += fatal["fatal"] == "timeout"
        else:
            crashes[c["id"]] = [c, rc, se[:3000] + " ... " + se[-3000:], stderr_frames(se)]
        todo = todo[idx + 1:]
        if len(crashes) >= max_crashes or hangs >= max_hangs:
            for c2 in todo:
                crashes.setdefault(c2["id"], [c2, -1, "not run: crash budget exhausted", []])
            break
    return obs_by_id, crashes


# ------------------------------------------------------------------ calibration

def attribute_memory_kills(crashes):
    """a case killed by the heap watchdog has no reliable stack (the allocating goroutine is on the system
    stack): run it once more, alone, under a 1.5 GiB address-space limit, so that the big allocation fails at
    once and the runtime prints the allocating stack"""
    for cid, cr in list(crashes.items()):
        if "executor watchdog: memory" not in cr[2]:
            continue
        AS_LIMIT[0] = 3 << 29
        try:
            o1, c1 = run_impl_frames([cr[0]], 1)
        finally:
            AS_LIMIT[0] = 6 << 30
        again = c1.get(cr[0]["id"])
        if again is not None and fatal_class(again[2]) == "out-of-memory" and again[3]:
            cr[3] = again[3]


def calibrate(ctx):
    """Which checks does the tree under test have?  One witness per site / behavioural repair, run
    through the real code: the model is then instantiated with exactly these (fixes, checked)."""
    I = {"k": "iface"}

    def U(s, t=I, mode="simple"):
        return {"entry": "unmarshal", "hex": s.encode("latin1").hex(), "t": t, "mode": mode}
    wit = {
        "ref-index": U("r5;", mode="ref"),
        "class-index": U("o5{}"),
        "make-neg-names": U('c1"A"-1{}'),
        "make-neg-uint8": U("a-1{}", {"k": "bytes"}),
        "make-neg-args": {"entry": "service", "hex": b'Cs3"add"a-1{}z'.hex(), "svc": "a"},
        "next-neg": U('b-5"abc'),
        "str-index": U('s4611686018427387904"abc"'),
        "str-slice": U("u\xf0ab"),
        "bigrat-nil": U("lxyz;", {"k": "bigrat"}),
        "unhashable": U("m1{a{}1}"),
        "ref-nil-set": {"entry": "client", "hex": b"Ra2{1r0;}z".hex(), "rt": [{"k": "int"}, I]},
        "ref-nil-kind": {"entry": "client", "hex": b"Ra2{1r0;}z".hex(), "rt": [{"k": "int"}, {"k": "int"}]},
        "objmap-field": U('c2"Pt"1{s1"q"}o0{1}', {"k": "map", "key": {"k": "string"}, "e": I}),
        "objmap-key": U('c2"Pt"1{s1"x"}o0{1}', {"k": "map", "key": I, "e": I}),
        "array-neg": U("a-100000000{}", {"k": "array", "n": 2, "e": {"k": "int"}}),
        "client-count": {"entry": "client", "hex": b"Ra-1{}z".hex(), "rt": [{"k": "int"}, {"k": "int"}]},
        "big-exp": U("d1e100000000;", {"k": "bigint"}),
        "big-exp/rat": U('s9"1e1000000"', {"k": "bigrat"}),
        # behavioural repairs (a count that is negative or larger than the bytes left is refused, per site)
        "fx_count-slice": U("a-1{}", {"k": "slice", "e": {"k": "int"}}),
        "fx_count-map": U("m-1{}"),
        "fx_count-listmap": U("a-1{}", {"k": "map", "key": {"k": "int"}, "e": {"k": "int"}}),
        "fx_count-objmap": U("m-1{}", {"k": "reg", "name": "Pt"}),
        "fx_loop": dict(U("a3{x12}", {"k": "slice", "e": {"k": "int"}}), dump=True),
        "fx_next": U('b70000"ab'),
        "fx_str": U('s70000"ab'),
        "fx_refnil": {"entry": "client", "hex": b"Ra2{1r0;}z".hex(), "rt": [{"k": "int"}, {"k": "string"}]},
        "fx_strwalk": dict(U('m1{uar0;}', {"k": "map", "key": {"k": "string"}, "e": {"k": "string"}}, "ref"), dump=True),
        "fx_strmap": dict(U('a2{c1"X"1{s1"f"}o0{n}r2;}', {"k": "slice", "e": {"k": "string"}}, "ref"), dump=True),
    }
    names = sorted(wit)
    cases = []
    for i, n in enumerate(names):
        c = dict(wit[n])
        c["id"] = i
        cases.append(c)
    obs, crashes = run_impl_frames([c for c, n in zip(cases, names) if n not in FATAL_SITES], 30)
    for c, n in zip(cases, names):
        if n in FATAL_SITES:
            o1, c1 = run_impl_frames([c], 2)
            obs.update(o1)
            crashes.update(c1)
    checked, fx = [], {}
    detail = {}
    for i, n in enumerate(names):
        o = obs.get(i)
        if n.startswith("fx_"):
            key = n[3:]
            if o is None:
                fx[key] = False
            elif key.startswith("count-"):
                # a negative count: the pinned code delivers a value (a slice of length -1, an empty map, an untouched struct)
                fx[key] = o["outcome"] == "error" and not o.get("corrupt")
            elif key in ("next", "str"):
                fx[key] = o["alloc"] < 60000
            elif key == "loop":
                # the tree goes on decoding 1 and 2 after the bad element; a loop that stops leaves them 0
                fx[key] = o["outcome"] == "error" and o.get("dump") != "[0 1 2]"
            elif key == "refnil":
                fx[key] = o["outcome"] == "error"
            elif key == "strwalk":
                # the tree prints a pointer to a map ("&map[]"); the walk refuses whatever lets fmt.Sprint reach a map
                fx[key] = o["outcome"] == "error"
            elif key == "strmap":
                fx[key] = "map[" not in (o.get("dump") or "")
            detail[n] = None if o is None else (o["outcome"], o.get("errclass"), o["alloc"], o.get("dump"))
        elif n.startswith("big-exp"):
            # a cost failure, not a panic: the repaired tree refuses the text instead of building the number
            detail[n] = None if o is None else (o["outcome"], o["alloc"])
        else:
            is_panic = (o is None) or o["outcome"] == "panic"
            if not is_panic:
                checked.append(n)
            detail[n] = "panics" if is_panic else "checked"
    if all(obs.get(i) is not None and obs[i]["outcome"] == "error" and obs[i]["alloc"] < (1 << 16)
           for i, n in enumerate(names) if n.startswith("big-exp")):
        checked.append("big-exp")
    # where a negative count panics in the pinned code, the count repair and the hazard check are one and the same
    for key, site in (("count-names", "make-neg-names"), ("count-uint8", "make-neg-uint8"), ("count-args", "make-neg-args"),
                      ("count-array", "array-neg")):
        fx[key] = site in checked
    return checked, fx, detail


# ------------------------------------------------------------------ generators

TAGS = b"0123456789ilndetfNIDTZbusgamcor;{}\"+-.HCREz"
HOT = b"0159-;{}\"nilrcomabsuegdtTD\x00\xff\xf0\xe2\xc3z"
VALUES = lambda n: ["0", "1", str(n), str(n + 1), "-1", str(2 ** 31), str(2 ** 31 - 1), str(2 ** 63), str(10 ** 11)]

I_ = {"k": "iface"}
DESTS = [I_, {"k": "int"}, {"k": "string"}, {"k": "bytes"}, {"k": "float64"}, {"k": "bool"},
         {"k": "slice", "e": I_}, {"k": "slice", "e": {"k": "int"}}, {"k": "array", "n": 2, "e": {"k": "int"}},
         {"k": "map", "key": {"k": "string"}, "e": I_}, {"k": "map", "key": I_, "e": I_},
         {"k": "map", "key": {"k": "int"}, "e": {"k": "string"}},
         {"k": "reg", "name": "User"}, {"k": "ptr", "e": {"k": "reg", "name": "Pt"}}, {"k": "ptr", "e": {"k": "int"}},
         {"k": "bigrat"}, {"k": "bigint"}, {"k": "time"}, {"k": "uuid"},
         {"k": "slice", "e": {"k": "ptr", "e": {"k": "string"}}},
         {"k": "anon", "fields": [{"n": "A", "t": {"k": "int"}}, {"k": "x", "n": "B", "t": {"k": "slice", "e": {"k": "string"}}}]}]
for _d in DESTS:
    if _d.get("k") == "anon":
        for _f in _d["fields"]:
            _f.pop("k", None)


def count_fields(b):
    """(start, end) of every digit run (possibly empty, possibly signed) that the grammar reads as a count,
    length, reference index or class index"""
    out = []
    for m in re.finditer(rb'[amsbor](-?\d*)(?=[{";])', b):
        out.append(m.span(1))
    for m in re.finditer(rb'"(-?\d*)\{', b):          # class field count
        out.append(m.span(1))
    return sorted(set(out))


class Gen:
    def __init__(self, rng, tier):
        self.rng = rng
        self.tier = tier
        self.cases = []
        self.seen = set()
        self.by_gen = {}

    def add(self, gen, base, data, **over):
        c = {"entry": base["entry"], "hex": data.hex()}
        for k in ("t", "mode", "svc", "rt", "o"):
            if k in base:
                c[k] = base[k]
        c.update(over)
        key = json.dumps(c, sort_keys=True)
        if key in self.seen:
            return
        self.seen.add(key)
        c["id"] = len(self.cases)
        c["gen"] = gen
        self.cases.append(c)
        self.by_gen[gen] = self.by_gen.get(gen, 0) + 1
        # the same hostile bytes from an io.Reader: all announce/digits/bomb cases, a share of the others
        if c["entry"] == "unmarshal" and not c.get("o") and not over.get("stack") \
           and (gen in ("announce", "digits", "bomb", "fixed") or self.rng.random() < 0.08):
            r = dict(c)
            r["entry"] = "reader"
            r["id"] = len(self.cases)
            r["gen"] = gen + "-reader"
            self.cases.append(r)
            self.by_gen[r["gen"]] = self.by_gen.get(r["gen"], 0) + 1


def generate(ctx, seeds):
    rng, quick = ctx.rng, ctx.tier == "quick"
    g = Gen(rng, ctx.tier)
    # (0) fixed corpus of hostile inputs (one per expected site, plus near misses)
    def U(s, t=I_, mode="simple"):
        return {"entry": "unmarshal", "t": t, "mode": mode}, (s if isinstance(s, bytes) else s.encode("latin1"))
    fixed = [
        U("r5;", mode="ref"), U("r0;"), U("r-1;", mode="ref"), U('a2{s1"a"r1;}', mode="ref"), U('a2{s1"a"r2;}', mode="ref"),
        U("o5{}"), U("o0{}"), U("o-1{}"), U('c1"A"1{s1"f"}o0{1}'), U('c1"A"1{s1"f"}o1{1}'),
        U("lxyz;", {"k": "bigrat"}), U("l12;", {"k": "bigrat"}), U("lxyz;", {"k": "bigint"}),
        U("a-1{}"), U("a-1{}", {"k": "slice", "e": {"k": "int"}}), U("a-1{}", {"k": "bytes"}),
        U("a-3{}", {"k": "array", "n": 2, "e": {"k": "int"}}), U("a-100000000{}", {"k": "array", "n": 2, "e": {"k": "int"}}),
        U("m-1{}"), U("m-1{}", {"k": "map", "key": {"k": "string"}, "e": I_}),
        U("u\xf0ab"), U("u\xf0\x9f\x98\x80"), U('s1"\xf0\x9f\x98\x80"'), U('s2"\xf0\x9f\x98\x80"'),
        U('b-5"abc'), U('b3"abc"'), U('b99999"abc'), U('s99999"abc'),
        U("m1{a{}1}"), U('m1{b1"a"1}'), U("m1{m{}1}"), U('m1{s1"a"1}'),
        U('m1{a{}1}', {"k": "map", "key": I_, "e": I_}),
        U('s4611686018427387904"abc"'), U('s3074457345618258603"abc"'), U('s-1"abc"'),
        U('c1"A"-1{}'), U('c1"A"99999{}'), U('c2"Pt"1{s1"q"}o0{1}', {"k": "map", "key": {"k": "string"}, "e": I_}),
        U('c2"Pt"1{s1"x"}o0{1}', {"k": "map", "key": {"k": "string"}, "e": I_}),
        U("a9999{", {"k": "array", "n": 1, "e": {"k": "int"}}), U("a99999{"), U("a99999{", {"k": "slice", "e": {"k": "int"}}),
        U("m99999{"), U("a99999{", {"k": "map", "key": {"k": "int"}, "e": {"k": "int"}}), U("a99999{", {"k": "bytes"}),
        U("a9{}", {"k": "slice", "e": {"k": "int"}}), U("i;"), U("a{1}"), U("d;"), U("i12x"),
        U("n", {"k": "bigrat"}), U('s3"1/0"', {"k": "bigrat"}), U("d1e999;", {"k": "float32"}),
        U('a2{m1{s1"k"r0;}r1;}', {"k": "slice", "e": {"k": "string"}}, "ref"),
        U('a2{c1"X"1{s1"f"}o0{r2;}r2;}', {"k": "slice", "e": {"k": "string"}}, "ref"),
    ]
    for base, data in fixed:
        g.add("fixed", base, data)
    S = lambda s, svc="a": ({"entry": "service", "svc": svc}, s.encode("latin1"))
    for base, data in [S('Cs3"add"a-1{}z'), S('Cs3"add"a99999{}z'), S('Cs3"add"a2{12}z'), S('Cs3"sum"a5{12345}z'),
                       S('Cs3"add"a3{123}z'), S('Cs3"add"a2{1r0;}z'), S('Cs3"add"a2{1r1;}z'), S("z"), S(""), S("x"),
                       S('Hm1{s6"simple"t}Cs3"add"a2{1r0;}z'), S('Hm1{s6"simple"f}Cs4"echo"a1{a1{r1;}}z'),
                       S('Cs4"nope"a2{12}z'), S('Cs4"nope"a2{12}z', "b"), S('Cs4"nope"a-1{}z', "b"), S('Hr0;Cs3"add"z'),
                       S('Hm99999{Cs3"add"z'), S('Cs99999"add')]:
        g.add("fixed", base, data)
    Cl = lambda s, rt: ({"entry": "client", "rt": rt}, s.encode("latin1"))
    II = {"k": "int"}
    for base, data in [Cl("Ra2{1r0;}z", [II, I_]), Cl("Ra2{1r0;}z", [II, II]), Cl("Ra2{1r0;}z", [II, {"k": "string"}]),
                       Cl("Ra2{1r1;}z", [II, I_]), Cl("Ra-1{}z", [II, II]), Cl("Ra99999{}z", [II, II]), Cl("R3z", []),
                       Cl("R3z", [II]), Cl('Es4"boom"z', [II]), Cl("z", [II]), Cl("x", [II]), Cl("Rr0;z", [I_]),
                       Cl("Ra99999{", [{"k": "slice", "e": I_}]), Cl('Hm1{s6"simple"t}Rr0;z', [I_])]:
        g.add("fixed", base, data)

    # (a) the valid streams themselves
    for s in seeds:
        g.add("valid", s, bytes.fromhex(s["hex"]))
    valid_ids = [c["id"] for c in g.cases if c["gen"] == "valid"]
    distinct = {}
    for s in seeds:
        distinct.setdefault((s["entry"], s["hex"], s.get("mode")), []).append(s)

    # (b) truncations, substitutions, insertions, deletions
    for s in seeds:
        b = bytes.fromhex(s["hex"])
        n = len(b)
        ks = range(n) if (n <= 100 or not quick) else sorted(set(list(range(60)) + rng.sample(range(60, n), min(60, n - 60))))
        for k in ks:
            g.add("truncate", s, b[:k])
        pos_all = list(range(n))
        if quick:
            ps = rng.sample(pos_all, min(n, 3))
            vals = lambda: rng.sample(list(HOT), 10) + [rng.randrange(256) for _ in range(3)]
        else:
            ps = rng.sample(pos_all, min(n, 12))
            vals = lambda: list(HOT) + [rng.randrange(256) for _ in range(12)]
        for p in ps:
            for v in vals():
                if v != b[p]:
                    g.add("substitute", s, b[:p] + bytes([v]) + b[p + 1:])
        for p in (pos_all if not quick else rng.sample(pos_all, min(n, 6))):
            g.add("delete", s, b[:p] + b[p + 1:])
        for p in rng.sample(range(n + 1), min(n + 1, 3 if quick else 10)):
            for v in rng.sample(list(HOT), 4 if quick else 12):
                g.add("insert", s, b[:p] + bytes([v]) + b[p:])
    if not quick:
        # exhaustive single-byte substitution (all 255 other values at every position) of every distinct stream
        # of at most 40 bytes, into the first destination it was produced for (at most 600k cases)
        budget_all = 600000
        for (entry, hx, mode), ss in sorted(distinct.items(), key=lambda kv: len(kv[0][1])):
            b = bytes.fromhex(hx)
            if len(b) > 40 or budget_all <= 0:
                continue
            s0 = ss[0]
            for p in range(len(b)):
                for v in range(256):
                    if v != b[p]:
                        g.add("substitute-all", s0, b[:p] + bytes([v]) + b[p + 1:])
                        budget_all -= 1

    # (c) grammar-aware mutations of every count / length / index field
    for s in seeds:
        b = bytes.fromhex(s["hex"])
        cf = count_fields(b)
        if quick and len(cf) > 12:
            cf = rng.sample(cf, 12)
        for (a, e) in cf:
            for v in VALUES(len(b)):
                g.add("field", s, b[:a] + v.encode() + b[e:])

    # (d) arbitrary bytes weighted towards tag bytes
    nrand = 2500 if quick else 40000
    dests = DESTS
    for i in range(nrand):
        n = rng.randint(1, 24)
        data = bytes(rng.choice(TAGS) if rng.random() < 0.85 else rng.randrange(256) for _ in range(n))
        r = rng.random()
        if r < 0.75:
            g.add("random", {"entry": "unmarshal", "t": rng.choice(dests), "mode": rng.choice(["simple", "ref"])}, data)
        elif r < 0.9:
            pre = rng.choice([b"", b'Cs3"add"', b'Cs4"echo"', b'Cs3"sum"a', b'Cs4"user"a', b"C", b'Hm1{s6"simple"t}C', b"H"])
            g.add("random", {"entry": "service", "svc": rng.choice(["a", "b"])}, pre + data)
        else:
            pre = rng.choice([b"", b"R", b"Ra", b"E", b'Hm1{s6"simple"t}R', b"H"])
            rt = rng.choice([[], [I_], [II], [II, I_], [{"k": "string"}, II, I_], [{"k": "reg", "name": "User"}]])
            g.add("random", {"entry": "client", "rt": rt}, pre + data)

    # (e) nesting bombs, digit runs, huge announced lengths
    depths = [10, 1000, 20000] if quick else [10, 1000, 20000, 200000]
    for d in depths:
        for unit, dest in [(b"a1{", I_), (b"m1{1", I_), (b"a1{", {"k": "slice", "e": I_}), (b"a{", I_), (b"c0\"\"{}", I_)]:
            for mode in ("simple", "ref"):
                g.add("bomb", {"entry": "unmarshal", "t": dest, "mode": mode}, unit * d)
    for d in ([100, 20000] if quick else [100, 20000, 1000000]):
        nine = b"9" * d
        for tmpl, dest in [(b"i%s;", I_), (b"l%s;", {"k": "bigint"}), (b"d%s;", I_), (b"a%s{", I_), (b's%s"', I_),
                           (b'b%s"', I_), (b"r%s;", I_), (b"o%s{", I_), (b"i%s;", {"k": "string"})]:
            g.add("digits", {"entry": "unmarshal", "t": dest, "mode": "ref"}, tmpl.replace(b"%s", nine))
    for v in ("100000", str(2 ** 31), str(10 ** 11), str(2 ** 62), "-100000", str(-(2 ** 31))):
        for tmpl, dest in [('a%s{', I_), ('a%s{', {"k": "slice", "e": {"k": "int"}}), ('a%s{', {"k": "array", "n": 2, "e": II}),
                           ('a%s{', {"k": "bytes"}), ('a%s{', {"k": "map", "key": II, "e": II}), ('m%s{', I_),
                           ('m%s{', {"k": "map", "key": {"k": "string"}, "e": II}), ('m%s{', {"k": "reg", "name": "Pt"}),
                           ('s%s"ab', I_), ('b%s"ab', I_), ('c1"A"%s{', I_), ('a2{a%s{', I_), ('u', I_)]:
            g.add("announce", {"entry": "unmarshal", "t": dest, "mode": "simple"}, (tmpl.replace("%s", v)).encode())
        g.add("announce", {"entry": "service", "svc": "a"}, ('Cs3"sum"a%s{' % v).encode())
        g.add("announce", {"entry": "service", "svc": "b"}, ('Cs3"xyz"a%s{' % v).encode())
        g.add("announce", {"entry": "client", "rt": [II, II]}, ('Ra%s{' % v).encode())
        g.add("announce", {"entry": "client", "rt": [{"k": "slice", "e": II}]}, ('Ra%s{' % v).encode())
        for tmpl in ('m%s{s1"x"1', 'm%s{s1"x"1s1"y"2}', 'm%s{s1"x"'):
            for dest in ({"k": "reg", "name": "Pt"}, {"k": "ptr", "e": {"k": "reg", "name": "Pt"}},
                         {"k": "anon", "fields": [{"n": "X", "t": II}, {"n": "Y", "t": II}]}):
                g.add("announce", {"entry": "unmarshal", "t": dest, "mode": "simple"}, (tmpl % v).encode())
    generate_wide(ctx, g, seeds)
    return g


# ------------------------------------------------------------------ beyond the default configuration

OPT_SPACE = {"list": 2, "struct": 2, "map": 2, "long": 5, "real": 3}


def all_opts():
    out = []
    for l in range(2):
        for st in range(2):
            for m in range(2):
                for lg in range(5):
                    for r in range(3):
                        o = {k: v for k, v in (("list", l), ("struct", st), ("map", m), ("long", lg), ("real", r)) if v}
                        if o:
                            out.append(o)
    return out


def one_opts():
    """every option alone at every non-default value"""
    return [{k: v} for k, n in sorted(OPT_SPACE.items()) for v in range(1, n)]


S_ = {"k": "string"}


def ST(*fs):
    return {"k": "anon", "fields": [{"n": n, "t": t} for n, t in fs]}


CYCLE_VALUES = [            # %c: a reference that may close a cycle
    'a1{%c}', 'm1{s1"k"%c}', 'm1{1%c}', 'c1"A"1{s1"a"}o0{%c}',
    'a1{m1{s1"k"%c}}', 'a1{c1"A"1{s1"a"}o0{%c}}', 'm1{s1"k"a1{%c}}', 'a2{m1{1%c}m1{2%c}}',
    'c4"User"1{s5"extra"}o0{%c}', 'c4"User"1{s5"extra"}o0{m1{1%c}}', 'a1{c4"User"1{s5"extra"}o0{a1{m1{1%c}}}}',
    'c4"Node"2{s4"next"s3"any"}o0{%c%c}', 'c4"Node"1{s4"dict"}o0{m1{s1"k"%c}}', 'c4"Node"1{s4"kids"}o0{a1{%c}}',
    'c4"Node"1{s3"any"}o0{m1{1%c}}', 'c2"Pt"2{s1"x"s1"y"}o0{1%c}',
]
CYCLE_DESTS = [             # (entry, destination, template with %v value and %s converting reference, options)
    ("unmarshal", ST(("A", I_), ("B", S_)), 'm2{s1"a"%vs1"b"%s}', None),
    ("unmarshal", ST(("A", I_), ("B", {"k": "slice", "e": S_})), 'm2{s1"a"%vs1"b"a1{%s}}', None),
    ("unmarshal", ST(("A", I_), ("B", {"k": "map", "key": S_, "e": {"k": "int"}})), 'm2{s1"a"%vs1"b"m1{%s1}}', None),
    ("unmarshal", ST(("A", I_), ("B", {"k": "map", "key": {"k": "int"}, "e": S_})), 'm2{s1"a"%vs1"b"m1{1%s}}', None),
    ("unmarshal", ST(("A", I_), ("B", {"k": "ptr", "e": S_})), 'm2{s1"a"%vs1"b"%s}', None),
    ("unmarshal", ST(("A", I_), ("B", ST(("S", S_)))), 'm2{s1"a"%vs1"b"m1{s1"s"%s}}', None),
    ("unmarshal", {"k": "map", "key": S_, "e": I_}, 'm2{s1"a"%v%s1}', None),
    ("unmarshal", {"k": "slice", "e": I_}, 'a2{%vm1{%s1}}', {"map": 1}),
    ("unmarshal", I_, 'a2{%vm1{%s1}}', {"map": 1}),
    ("unmarshal", I_, 'a2{%vm1{%s1}}', {"map": 1, "struct": 1, "list": 1}),
    ("unmarshal", ST(("A", {"k": "reg", "name": "Node"}), ("B", S_)), 'm2{s1"a"%vs1"b"%s}', None),
    ("client", [I_, S_], 'Ra2{%v%s}z', None),
    ("client", [I_, {"k": "slice", "e": S_}], 'Ra2{%va1{%s}}z', None),
]
EXP_TEXTS = ["1e100000000", "1e1000000000", "1e1000000", "1e-1000000", "1e-100000000", "1e16384", "1e16385", "1e65536", "1e308", "1e400",
             "-1e99999999", "1E9999999", "1.5e7000000", "0x1p100000000", "0x1p-100000000", "0x1p1000000", "1p1000000", "1e9999999999999999999",
             "9" * 40 + "e99999999", "1e+50000000", "0.1e100000001", "1e2147483647", "1e2147483648", "1e-2147483648", "1e4294967296",
             "1_0e1_0000000", "0b1p100000000", "0o7p100000000", "Inf", "-inf", "1e", "e5", "1e5", "1/1e100000000", "1e100000000/1", "1e30"]
EXP_DESTS = [{"k": k} for k in ("bigint", "bigfloat", "bigrat", "int", "int8", "int64", "uint", "uint64", "float32", "float64",
                                "bool", "string", "bytes", "time", "uuid", "iface", "complex128")] + \
            [{"k": "ptr", "e": {"k": "bigint"}}, {"k": "slice", "e": {"k": "bigint"}}, {"k": "map", "key": S_, "e": {"k": "bigrat"}},
             ST(("A", {"k": "bigint"}), ("B", {"k": "bigrat"}))]
LIST_POOL = ['1', 'i12;', 'd1.5;', 'n', 't', 'e', 'uA', 's3"abc"', 'b16"0123456789abcdef"', 'b0""', 'a1{s3"abc"}', 'a1{b1"x"}', 'a1{1}',
             'a2{1d2.5;}', 'a{}', 'a1{a1{1}}', 'a1{a1{s1"q"}}', 'a1{n}', 'a2{s1"p"n}', 'm1{1s1"v"}', 'm1{s1"k"1}', 'm{}',
             'c2"Pt"2{s1"x"s1"y"}o0{12}', 'o0{34}', 'c4"HKey"2{s2"iD"s4"name"}o1{1ua}', 'a1{o0{56}}', 'a1{o1{2ub}}',
             'l123456789012345678901234567890;', 'a1{l5;}', 'a1{d1e5;}', 'g{3f257da1-0b85-48d6-8f5c-6cd13d2d60c9}', 'D20200102T030405Z',
             'a1{D20200102Z}', 'a1{uA}', 'a1{t}', 'a1{m1{11}}', 'a1{m1{s1"k"1}}', 'r0;', 'r1;', 'a1{r1;}']
KEY_POOL = ['c2"Pt"2{s1"x"s1"y"}o0{12}', 'c4"HKey"2{s2"iD"s4"name"}o0{1ua}',
            'c3"Key"2{s2"iD"s6"labels"}o0{1c6"Labels"1{s5"names"}o1{a1{ua}}}', 'c3"Key"2{s2"iD"s6"labels"}o0{1n}',
            'c6"Labels"1{s5"names"}o0{a1{ua}}', 'c6"Labels"1{s5"names"}o0{n}',
            'c4"User"5{s4"name"s3"age"s4"tags"s5"extra"s1"p"}o0{ua1a1{ub}nn}', 'c4"User"1{s4"name"}o0{ua}',
            'c4"User"1{s5"extra"}o0{a1{1}}', 'c4"User"1{s5"extra"}o0{m1{11}}', 'c4"User"1{s1"p"}o0{c2"Pt"1{s1"x"}o1{1}}',
            'c4"Node"1{s4"name"}o0{un}', 'c4"Node"1{s4"kids"}o0{a1{n}}', 'c4"Node"1{s4"dict"}o0{m{}}', 'c4"Node"1{s3"any"}o0{a1{1}}',
            'c4"Node"1{s3"any"}o0{c2"Pt"1{s1"x"}o1{1}}', 'c1"Z"1{s1"f"}o0{1}', 'a1{1}', 'm1{11}', 'b1"x"', 's1"k"', 'd1.5;', 'N', 'n',
            'l99999999999999999999;', 'D20200102Z', 'g{3f257da1-0b85-48d6-8f5c-6cd13d2d60c9}']
JSON_VALUES = ['null', 'true', '5', '-1', '1.5', '1e400', '1e-400', '123456789012345678901234567890', '"s"', '""', '"\\ud800"', '[]', '[1]',
               '[1,2]', '[1,2,3]', '["a",2]', '[[1],[2]]', '[null,null]', '{}', '{"a":1}', '{"name":"u","age":"x"}', '[{"a":[{"b":null}]}]',
               '[1e400]', '[' * 50 + ']' * 50, '"' + "x" * 300 + '"']
JSON_RTS = [[], [{"k": "int"}], [{"k": "int"}, {"k": "int"}], [S_, I_, {"k": "int"}], [{"k": "reg", "name": "User"}],
            [{"k": "slice", "e": {"k": "int"}}, {"k": "map", "key": S_, "e": {"k": "int"}}], [I_, I_], [{"k": "ptr", "e": {"k": "reg", "name": "Pt"}}, S_]]


def generate_wide(ctx, g, seeds):
    """the case space outside the model's: decoder options, value graphs with cycles and sharing into converting
    destinations, numbers written with exponents into every numeric destination, the JSON-RPC codecs"""
    rng, quick = ctx.rng, ctx.tier == "quick"
    opts = all_opts()
    lat = lambda s_: s_.encode("latin1")

    # (f) the valid streams and the fixed corpus under other decoder options: every option alone, and random combinations
    singles = one_opts()
    base_cases = [c for c in g.cases if c["gen"] in ("valid", "fixed")]
    for c in base_cases:
        iface = (c["entry"] != "unmarshal") or has_iface(c["t"])
        pick = (singles if iface else singles[:2]) + rng.sample(opts, (2 if quick else 8) if iface else 1)
        for o in pick:
            g.add("opt-" + c["gen"], dict(c, o=o), bytes.fromhex(c["hex"]))
    mut = [c for c in g.cases if c["gen"] in ("truncate", "substitute", "delete", "insert", "field", "announce", "random")
           and ((c["entry"] != "unmarshal") or has_iface(c["t"]))]
    for c in rng.sample(mut, min(len(mut), 4000 if quick else 60000)):
        g.add("opt-mutant", dict(c, o=rng.choice(opts if rng.random() < 0.5 else singles)), bytes.fromhex(c["hex"]))

    # (g) value graphs: a container that holds itself (or the same container twice) through references, then a
    # reference to it where the destination converts (string, []string, map keys and values, *string, struct fields)
    rmax = 6 if quick else 9
    for v in CYCLE_VALUES:
        for (entry, dest, tmpl, o) in CYCLE_DESTS:
            for ci in range(rmax):
                for si in range(rmax):
                    data = lat(tmpl.replace("%v", v.replace("%c", "r%d;" % ci)).replace("%s", "r%d;" % si))
                    base = {"entry": entry, "mode": "ref", "t": dest} if entry == "unmarshal" else {"entry": entry, "rt": dest}
                    if o:
                        base["o"] = o
                    g.add("cycle", base, data, stack=64, fam="graphs-%d" % CYCLE_DESTS.index((entry, dest, tmpl, o)))
    # the same container many times over: k levels, each holding the level below twice (2^k leaves in print)
    for k in (12, 22, 30):
        for off in range(6):
            # an object of an unregistered class is a map[string]interface{} that the reference list holds by value
            levels = "".join("o0{r%d;r%d;}" % (i + off, i + off) for i in range(k))
            v = 'a%d{c1"A"2{s1"a"s1"b"}o0{nn}%s}' % (k + 1, levels)
            for (entry, dest, tmpl, o) in CYCLE_DESTS[:7] + CYCLE_DESTS[12:]:
                for si in range(4):
                    data = lat(tmpl.replace("%v", v).replace("%s", "r%d;" % si))
                    base = {"entry": entry, "mode": "ref", "t": dest} if entry == "unmarshal" else {"entry": entry, "rt": dest}
                    g.add("share", base, data, stack=64, fam="graphs-share")

    # (h) numbers written with an exponent, into every destination that parses or converts a number
    for txt in EXP_TEXTS:
        forms = ["d%s;" % txt, "l%s;" % txt, "i%s;" % txt, 's%d"%s"' % (len(txt), txt)]
        for f in forms:
            for dest in EXP_DESTS:
                wrap = f
                if dest["k"] == "slice":
                    wrap = "a1{%s}" % f
                elif dest["k"] == "map":
                    wrap = 'm1{s1"k"%s}' % f
                elif dest["k"] == "anon":
                    wrap = 'm2{s1"a"%ss1"b"%s}' % (f, f)
                g.add("exponent", {"entry": "unmarshal", "mode": "simple", "t": dest}, lat(wrap))
            for o in ({"long": 4}, {"real": 2}, {"long": 4, "real": 2}, {"real": 1}, {"long": 3}):
                g.add("exponent", {"entry": "unmarshal", "mode": "simple", "t": I_, "o": o}, lat(f))
                g.add("exponent", {"entry": "unmarshal", "mode": "simple", "t": {"k": "slice", "e": I_}, "o": o}, lat("a2{%s%s}" % (f, f)))
        # a string read once and converted where it is referred to again
        g.add("exponent", {"entry": "unmarshal", "mode": "ref", "t": ST(("A", S_), ("B", {"k": "bigrat"}), ("C", {"k": "bigint"}), ("D", {"k": "bigfloat"}))},
              lat('m4{s1"a"s%d"%s"s1"b"r1;s1"c"r1;s1"d"r1;}' % (len(txt), txt)))
        g.add("exponent", {"entry": "client", "rt": [{"k": "bigint"}, {"k": "bigrat"}]}, lat("Ra2{d%s;s%d\"%s\"}z" % (txt, len(txt), txt)))

    # (i) lists of lists of different element types, objects as keys: ListType / StructType / MapType pick Go types from the values
    lo = [o for o in opts if o.get("list") or o.get("struct") or o.get("map")]
    pairs = [(a, b) for a in LIST_POOL for b in LIST_POOL]
    if quick:
        pairs = rng.sample(pairs, 500) + [(a, b) for a in LIST_POOL[7:20] for b in LIST_POOL[7:20]]
    for a, b in pairs:
        for o in ({"list": 1}, {"list": 1, "struct": 1}, rng.choice(lo)):
            for dest in (I_, {"k": "slice", "e": I_}):
                for mode in ("simple", "ref"):
                    g.add("lists", {"entry": "unmarshal", "mode": mode, "t": dest, "o": o}, lat("a2{%s%s}" % (a, b)))
        o = rng.choice(lo)
        g.add("lists", {"entry": "unmarshal", "mode": "ref", "t": I_, "o": o}, lat("a3{%s%s%s}" % (a, b, a)))
        g.add("lists", {"entry": "unmarshal", "mode": "ref", "t": I_, "o": o}, lat("a1{a2{%s%s}}" % (a, b)))
        g.add("lists", {"entry": "service", "svc": "a", "o": o}, lat('Cs4"echo"a1{a2{%s%s}}z' % (a, b)))
        g.add("lists", {"entry": "client", "rt": [I_], "o": o}, lat('Ra2{%s%s}z' % (a, b)))
    for kx in KEY_POOL:
        for o in ({"struct": 1}, {"struct": 1, "map": 1}, {"struct": 1, "list": 1}, {"map": 1}, {"list": 1}, None):
            for dest in (I_, {"k": "map", "key": I_, "e": I_}, {"k": "slice", "e": I_}):
                for tmpl in ("m1{%sn}", "m2{%s1%s2}", "a1{m1{%s1}}", "m1{a1{%s}1}", "m1{m1{%s1}1}"):
                    base = {"entry": "unmarshal", "mode": "ref", "t": dest}
                    if o:
                        base["o"] = o
                    g.add("keys", base, lat(tmpl.replace("%s", kx)))
            if o:
                g.add("keys", {"entry": "service", "svc": "a", "o": o}, lat('Cs4"echo"a1{m1{%sn}}z' % kx))
                g.add("keys", {"entry": "client", "rt": [I_], "o": o}, lat('Rm1{%sn}z' % kx))

    # (j) the JSON-RPC codecs: well-formed bodies with hostile members, then byte-level damage of a few of them
    bodies = []
    for m in ("add", "echo", "sum", "user", "nope", "", "~", "*"):
        for pv in JSON_VALUES:
            bodies.append('{"jsonrpc":"2.0","id":1,"method":"%s","params":%s}' % (m, pv))
    for extra in ('"id":"x"', '"id":1e400', '"id":null', '"id":99999999999999999999', '"headers":[]', '"headers":{"a":{"b":[1]}}',
                  '"headers":{"simple":"x"}', '"headers":null', '"jsonrpc":2', '"jsonrpc":null', '"method":5', '"method":null',
                  '"params":{"a":1}', '"params":"x"', '"params":[1,2],"params":[3]'):
        bodies.append('{"jsonrpc":"2.0","id":1,"method":"add","params":[1,2],%s}' % extra)
        bodies.append('{%s,"jsonrpc":"2.0","method":"add"}' % extra)
    bodies += ['{}', '{', '{"', '{"jsonrpc":"2.0"}', '{"jsonrpc":"2.0","method":"add"}', '{"jsonrpc":"2.0","method":"sum"}',
               '{"jsonrpc":"2.0","method":"sum","params":[1,2,3,4,5,6,7,8,9,10,11,12,13,14,15,16,17,18,19,20]}',
               '{"jsonrpc":"2.0","method":"sum","params":[1,"x"]}', '{"jsonrpc":"2.0","method":"user","params":[{"Name":"u","Tags":[1]},["a"],{"k":"v"}]}',
               '{"jsonrpc":"2.0","method":"user","params":[{"name":"u","age":3,"tags":["t"],"extra":{"a":[1]},"p":{"x":1}},["a"],{"k":1}]}',
               '{"jsonrpc":"2.0","method":"add","params":[' + ",".join(["1"] * 2000) + ']}', '[' * 20000, '{"a":' * 20000, '{"params":' + '[' * 20000]
    for b in bodies:
        for svc in ("a", "b"):
            g.add("jsonrpc", {"entry": "jservice", "svc": svc}, lat(b))
    g.add("jsonrpc", {"entry": "jservice", "svc": "a", "o": {"list": 1, "struct": 1}}, lat('Cs4"echo"a1{a2{a1{s3"abc"}b1"x"}}z'))
    replies = []
    for rv in JSON_VALUES:
        replies.append('{"jsonrpc":"2.0","id":1,"result":%s}' % rv)
    for ev in ('null', '5', '"x"', '[]', '{}', '{"code":1}', '{"code":"x"}', '{"message":5}', '{"code":0,"message":"m","data":"!!!"}',
               '{"code":0,"message":"m","data":"QUJD"}', '{"code":0,"message":"m","data":5}', '{"code":1e400,"message":"m"}',
               '{"code":-32700,"message":"' + "x" * 500 + '"}', '{"message":"m"}'):
        replies.append('{"jsonrpc":"2.0","id":1,"error":%s}' % ev)
        replies.append('{"jsonrpc":"2.0","id":1,"result":5,"error":%s}' % ev)
        replies.append('{"jsonrpc":"2.0","id":1,"result":[1,2],"error":%s}' % ev)
    replies += ['{}', '{', '', 'null', '[]', '5', '{"result":5}', '{"result":[1,"x"]}', '{"headers":{"a":1},"result":[1,2]}', '{"headers":[],"result":1}',
                '{"headers":{"a":{"b":{"c":[1,{"d":null}]}}},"result":null}', '{"result":' + '[' * 20000, '{"result":[' + ",".join(["1"] * 3000) + ']}']
    for b in replies:
        for rt in JSON_RTS:
            g.add("jsonrpc", {"entry": "jclient", "rt": rt}, lat(b))
    good = ['{"jsonrpc":"2.0","id":1,"method":"add","params":[1,2]}', '{"jsonrpc":"2.0","id":7,"headers":{"a":1},"method":"user","params":[{"name":"u"},["a"],{"k":1}]}']
    for b in good:
        bb = lat(b)
        for k in range(len(bb)):
            g.add("jsonrpc", {"entry": "jservice", "svc": "a"}, bb[:k])
        for _ in range(60 if quick else 1500):
            p_ = rng.randrange(len(bb))
            g.add("jsonrpc", {"entry": "jservice", "svc": rng.choice("ab")}, bb[:p_] + bytes([rng.choice(b'{}[]",:0-9ntfe\\ \x00\xff')]) + bb[p_ + 1:])
    goodr = ['{"jsonrpc":"2.0","id":1,"result":[1,"two"]}', '{"jsonrpc":"2.0","id":1,"headers":{"a":1},"result":{"name":"u","age":3}}',
             '{"jsonrpc":"2.0","id":1,"error":{"code":0,"message":"m","data":"QUJD"}}']
    for b in goodr:
        bb = lat(b)
        for k in range(len(bb)):
            g.add("jsonrpc", {"entry": "jclient", "rt": rng.choice(JSON_RTS)}, bb[:k])
        for _ in range(60 if quick else 1500):
            p_ = rng.randrange(len(bb))
            g.add("jsonrpc", {"entry": "jclient", "rt": rng.choice(JSON_RTS)}, bb[:p_] + bytes([rng.choice(b'{}[]",:0-9ntfe\\ \x00\xff')]) + bb[p_ + 1:])


# ------------------------------------------------------------------ comparison

WIDE_FAMILY = {"opt-valid": "options", "opt-fixed": "options", "opt-mutant": "options", "cycle": "graphs", "share": "graphs",
               "exponent": "exponents", "lists": "typed-containers", "keys": "typed-containers", "jsonrpc": "jsonrpc"}


def slow_bound(n):
    return 2 * 10 ** 8 + 5000 * n


def expected_from_model(m, n=0):
    """what the model predicts of the implementation: (kind, detail)
       kind: value | error | panic | blowup | corrupt | skip | unsure"""
    cl = m["class"]
    if cl.startswith("unmod") or cl.startswith("ask") or cl == "MODEL-ERROR" or cl == "fuel":
        return ("skip", cl)
    steps, alloc = m.get("steps", 0), max(m.get("alloc", 0), m.get("rsv", 0))
    if (cl.startswith("panic:") or cl in ("value", "error")) and m.get("rsv", 0) >= (1 << 31):
        return ("blowup", "reserved=%d" % m.get("rsv", 0))       # the up-front make / grow comes before anything else
    if cl.startswith("panic:"):
        return ("panic", cl[6:])
    if steps >= HANG_STEPS or alloc >= (1 << 31):
        return ("blowup", "steps=%d alloc=%d" % (steps, alloc))
    if steps > FAST_STEPS or alloc > HEAVY_ALLOC:
        return ("unsure", "steps=%d alloc=%d" % (steps, alloc))
    if alloc > 4 * (K_ALLOC * n + K0_ALLOC):
        return ("overalloc", cl)
    if alloc > (K_ALLOC * n + K0_ALLOC) // 4:
        return ("unsure", "alloc=%d near the bound" % alloc)
    if m.get("corrupt") == 1:
        return ("corrupt", cl)
    return (cl, "")


def agree(exp, icl, ikey, case_len, m, o):
    kind, det = exp
    if kind == "skip":
        return None
    if kind == "unsure":
        return None
    if kind == "panic" and det == "big-exp":
        # the number is built in full: out of proportion for a large exponent, unremarkable for a moderate one
        return True if (icl == "fatal" or (ikey or "").startswith(("overalloc", "slow"))) else (None if icl in ("value", "error") else False)
    if kind == "panic":
        want = SITE_KEY.get(det, det)
        if det in FATAL_SITES:
            return True if ikey == want else None      # the damage need not be visible at once
        if icl == "panic":
            return ikey == want
        if icl == "fatal" and det.startswith("alloc-range"):
            return True
        return False
    if kind == "blowup":
        return icl == "fatal" or (ikey or "").startswith("overalloc")
    if kind == "overalloc":
        return icl == "fatal" or (ikey or "").startswith("overalloc")
    if kind == "corrupt":
        if (ikey or "").startswith("corrupt-value"):
            return True
        return None if icl in ("value", "error", "fatal") else False      # writes before an array: not observable
    if icl not in ("value", "error"):
        return False
    if ikey is not None:        # over-allocation or corrupt value the model did not predict
        return False
    return kind == icl


def corpus_cases(ctx):
    """minimised inputs of repaired defects run first, each case in a process of its own; they must pass the oracle"""
    import glob
    n = 0
    for path in sorted(glob.glob(os.path.join(hv.V, "corpus", "C04-*.json"))):
        r = json.load(open(path))
        for k, case in enumerate(r.get("cases", [])):
            c = dict(case)
            c["id"] = 0
            obs, crashes = run_impl_frames([c], 1)
            icl, ikey, what = impl_verdict(c, obs.get(0), crashes.get(0))
            n += 1
            bad = ikey is not None or icl in ("panic", "fatal")
            if r.get("status") == "fixed" and bad:
                ctx.report("corpus:" + os.path.basename(path),
                           "a repaired defect (%s, %s) fails again on case %d: %s %s" % (r.get("key"), r.get("fixed_by"), k, ikey or icl, what),
                           {"case": case, "failing_input": True, "corpus": os.path.basename(path)})
            elif r.get("status") == "known" and bad:
                ctx.report(r["key"], what, {"case": case, "failing_input": True, "corpus": os.path.basename(path)})
    ctx.note("corpus_cases_run_first", n)


def run(ctx):
    import time
    T = {}
    t0 = time.time()
    proved = ctx.prove()
    T["prove"] = round(time.time() - t0, 1); t0 = time.time()
    hv.build_harness("c04")
    hv.build_modelrun("c04")
    ctx.assumptions += [
        "in-memory input only (NewDecoder / ResetBytes: reader == nil)",
        "the Coq model covers the hprose codec under the default decoder options (and any options where the destination holds no "
        "interface{}); other options, value graphs (cycles, sharing), registered types beyond Pt/User and the JSON-RPC codecs are "
        "judged by the property oracle alone (no panic, no fatal error, no hang, allocation and time in proportion, sane value)",
        "library parsers (strconv, math/big, uuid, time layouts) are oracles: their accept/reject answers are "
        "obtained from the real library per text and handed to the model as a finite table; the theorems hold for every oracle",
        "model counters (steps, alloc) bound the model; wall time / TotalAlloc of the executor only validate that they track reality",
    ]
    rc, obs, err = hv.run_harness("c04", [{"id": 0, "entry": "seeds", "hex": ""}])
    if rc != 0 or not obs:
        raise hv.EnvError("c04 executor cannot produce its seed corpus: " + err[-500:])
    seeds = obs[0]["seeds"]
    checked, fx, detail = calibrate(ctx)
    fixbits = ",".join(sorted(k for k, v in fx.items() if v)) or "-"
    checked_s = ",".join(checked) if checked else "-"
    ctx.note("tree_checks", {"checked_sites": checked, "behavioural_repairs": fx, "witnesses": detail})

    T["build+calibrate"] = round(time.time() - t0, 1); t0 = time.time()
    corpus_cases(ctx)
    T["corpus"] = round(time.time() - t0, 1); t0 = time.time()
    g = generate(ctx, seeds)
    cases = g.cases
    T["generate"] = round(time.time() - t0, 1); t0 = time.time()
    ctx.note("generators", g.by_gen)
    oracle_cache = {}
    model = run_model(cases, fixbits, checked_s, oracle_cache)

    T["model"] = round(time.time() - t0, 1); t0 = time.time()
    # schedule: cases the model expects to blow up go to a separate, budgeted batch
    light, heavy, alone, wide = [], [], [], {}
    for c in cases:
        m = model[c["id"]]
        if m["class"].startswith("panic:") and m["class"][6:] in FATAL_SITES:
            alone.append(c)
            continue
        big = (m.get("steps", 0) > HEAVY_STEPS or max(m.get("alloc", 0), m.get("rsv", 0)) > HEAVY_ALLOC or len(c["hex"]) > 400000
               or m["class"] == "panic:big-exp")
        if big:
            heavy.append(c)
        elif c["gen"] in WIDE_FAMILY:
            wide.setdefault(c.get("fam") or WIDE_FAMILY[c["gen"]], []).append(c)
        else:
            light.append(c)
    budget = 12 if ctx.tier == "quick" else 60
    hang_budget = 3 if ctx.tier == "quick" else 14
    chosen, sig_seen = [], {}
    for c in sorted(heavy, key=lambda c: len(c["hex"])):
        m = model[c["id"]]
        hang = m.get("steps", 0) >= HANG_STEPS and max(m.get("alloc", 0), m.get("rsv", 0)) < (1 << 30)
        sig = (c["entry"], json.dumps(c.get("t") or c.get("rt") or c.get("svc")), "hang" if hang else "mem", c["hex"][:2])
        if m["class"] == "panic:big-exp":
            continue
        if sig in sig_seen:
            continue
        if hang:
            if hang_budget <= 0:
                continue
            hang_budget -= 1
        if len(chosen) >= budget:
            break
        sig_seen[sig] = 1
        chosen.append(c)
    # numbers the model expects to be built in full: the ones whose written exponent is nearest 10^8 first (tens of
    # megabytes, well under a second each), one per (destination, tag)
    def exp_rank(c):
        mm = re.search(rb"[eEpP][+-]?(\d+)", bytes.fromhex(c["hex"]))
        # math/big refuses a rational's exponent beyond 10^6 by itself: the costly texts are at and just below it
        import math
        if not mm:
            return (99.0, len(c["hex"]), c["hex"])
        v = int(mm.group(1))
        if b'"' in bytes.fromhex(c["hex"]):
            return (abs(math.log10(max(v, 1)) - 6) + (10 if v > 10 ** 6 else 0), len(c["hex"]), c["hex"])
        return (abs(math.log10(max(v, 1)) - 8), len(c["hex"]), c["hex"])
    be_seen, n_be = set(), {True: 0, False: 0}
    for c in sorted([c for c in heavy if model[c["id"]]["class"] == "panic:big-exp"], key=exp_rank):
        txt = b'"' in bytes.fromhex(c["hex"])
        sig = (json.dumps(c.get("t") or c.get("rt")), c["hex"][:2])
        if sig in be_seen or n_be[txt] >= (4 if ctx.tier == "quick" else 20):
            continue
        be_seen.add(sig)
        n_be[txt] += 1
        chosen.append(c)
    n_be = sum(n_be.values())
    ctx.note("exponent_cases_executed", [bytes.fromhex(c["hex"])[:40].decode("latin1") + " -> " + json.dumps(c.get("t") or c.get("rt"))[:60]
                                         for c in chosen if model[c["id"]]["class"] == "panic:big-exp"])
    ctx.note("heavy_cases", {"model_predicted": len(heavy), "executed": len(chosen), "of_them_exponents": n_be})

    obs, crashes = run_impl_frames(light, 4000, 4 if ctx.tier == "quick" else 30)
    T["impl_light"] = round(time.time() - t0, 1); t0 = time.time()
    obs2, crashes2 = run_impl_frames(chosen, 200, 20)
    T["impl_heavy"] = round(time.time() - t0, 1); t0 = time.time()
    obs.update(obs2)
    crashes.update(crashes2)
    # the cases outside the model's configuration: one batch (and one crash budget) per family, so that a defect in
    # one family cannot use up the executions of another
    wide_note = {}
    for fam in sorted(wide):
        batch = wide[fam]
        small = fam.startswith("graphs-")
        o3, c3 = run_impl_frames(batch, (4 if small else 12) if ctx.tier == "quick" else (30 if small else 120), 2 if ctx.tier == "quick" else 12)
        obs.update(o3)
        crashes.update(c3)
        fam0 = fam.split("-")[0] if fam.startswith("graphs-") else fam
        wide_note.setdefault(fam0, {"cases": 0, "not_run": 0})
        wide_note[fam0]["cases"] += len(batch)
        wide_note[fam0]["not_run"] += sum(1 for v in c3.values() if v[1] == -1)
    ctx.note("wide_families", wide_note)
    T["impl_wide"] = round(time.time() - t0, 1); t0 = time.time()
    ctx.rng.shuffle(alone)
    alone_run = sorted(alone[:(8 if ctx.tier == "quick" else 40)], key=lambda c: len(c["hex"]))
    for c in alone_run:
        o1, c1 = run_impl_frames([c], 2)
        obs.update(o1)
        crashes.update(c1)
    T["impl_isolated"] = round(time.time() - t0, 1); t0 = time.time()
    ctx.note("isolated_cases", {"model_predicted_fatal": len(alone), "executed_each_in_its_own_process": len(alone_run)})
    attribute_memory_kills(crashes)
    # memory-safety pass: the valid streams (among them lists longer than any up-front reservation), the fixed
    # corpus and a sample of the mutants once more through the checkptr executor
    build_checkptr()
    sample = [c for c in light if c["gen"] in ("valid", "fixed")]
    rest_light = [c for c in light if c["gen"] not in ("valid", "fixed")]
    ctx.rng.shuffle(rest_light)
    sample += rest_light[:(3000 if ctx.tier == "quick" else 30000)]
    cp_obs, cp_crashes = run_impl_frames(sample, 50, 4, exe_name="hv-c04-cp")
    n_cp = 0
    for c in sample:
        cr = cp_crashes.get(c["id"])
        if cr is not None and cr[1] != -1 and fatal_class(cr[2]) == "checkptr":
            n_cp += 1
            if c["id"] not in crashes:
                crashes[c["id"]] = cr
                obs.pop(c["id"], None)
    ctx.note("checkptr_pass", {"cases": len(sample), "unsafe_pointer_faults": n_cp})
    T["impl_checkptr"] = round(time.time() - t0, 1); t0 = time.time()
    ctx.note("phase_seconds", T)
    ran = {c["id"] for c in light} | {c["id"] for c in chosen} | {c["id"] for c in alone_run} | {c["id"] for b in wide.values() for c in b}
    # time: a case far slower than its length explains is run again, alone, twice; it counts when it is slow every time
    slow = {}
    by_id = {c["id"]: c for c in cases}
    suspects = [cid for cid, o in obs.items() if cid in ran and cid in by_id and o.get("ns", 0) > slow_bound(len(by_id[cid]["hex"]) // 2)]
    for cid in sorted(suspects, key=lambda i: -obs[i]["ns"])[:(10 if ctx.tier == "quick" else 60)]:
        best = obs[cid]["ns"]
        for _ in range(2):
            o1, c1 = run_impl_frames([by_id[cid]], 1)
            if o1.get(cid) is not None:
                best = min(best, o1[cid]["ns"])
        if best > slow_bound(len(by_id[cid]["hex"]) // 2):
            slow[cid] = best
    ctx.note("time_oracle", {"suspects": len(suspects), "confirmed": len(slow), "bound": "0.2 s + 5 us per input byte, three runs"})

    failing = {}      # key -> (len, case, what, model)
    disagree = {}
    stats = {"agree": 0, "disagree": 0, "skipped": 0, "inconclusive": 0, "oracle_fail": 0}
    max_ratio, max_valid_alloc = 0.0, 0
    for c in cases:
        if c["id"] not in ran:
            continue
        o = obs.get(c["id"])
        cr = crashes.get(c["id"])
        if o is None and cr is None:
            continue
        if cr is not None and cr[1] == -1:
            continue
        m = model[c["id"]]
        icl, ikey, what = impl_verdict(c, o, cr)
        if icl == "builderr":
            raise hv.EnvError("c04 executor cannot build a case: " + what)
        if ikey is None and c["id"] in slow:
            own = norm_owner(loop_owner([f for f in (o.get("alloc_at") or "").split(";") if f]))
            ikey = "slow:" + (own if own != "?" else c["entry"])
            what = "%.2f s (fastest of three runs) for %d input bytes" % (slow[c["id"]] / 1e9, len(c["hex"]) // 2)
        n = len(c["hex"]) // 2
        ctx.count_case("%s|%s|%s|%s|%s" % (c["entry"], c["hex"], json.dumps(c.get("t") or c.get("rt")), c.get("mode") or c.get("svc"),
                                           json.dumps(c.get("o"), sort_keys=True) if c.get("o") else ""),
                       nontrivial=n > 0)
        ctx.bump("impl_outcomes", icl)
        ctx.bump("model_outcomes", m["class"].split(":")[0] + (":" + m["class"].split(":")[1] if m["class"].startswith("panic") else ""))
        if c["gen"] == "valid" and o is not None:
            max_valid_alloc = max(max_valid_alloc, o["alloc"])
            if n:
                max_ratio = max(max_ratio, (o["alloc"] - 0) / n)
        # property oracle, independent of the model
        bad = ikey is not None or icl in ("panic", "fatal")
        if bad:
            stats["oracle_fail"] += 1
            cur = failing.get(ikey)
            if cur is None or n < cur[0]:
                failing[ikey] = (n, c, what, m["raw"])
            ctx.bump("failing_by_key", ikey)
        # correspondence
        a = agree(expected_from_model(m, n), icl, ikey, n, m, o)
        if a is None:
            stats["skipped" if expected_from_model(m, n)[0] == "skip" else "inconclusive"] += 1
        elif a:
            stats["agree"] += 1
            if o is not None and m.get("err") not in (None, "-") and o.get("errclass"):
                ctx.bump("errclass_pairs", "%s/%s" % (m.get("err"), o.get("errclass")))
        else:
            stats["disagree"] += 1
            dk = "%s~%s" % (m["class"].split(" ")[0], ikey or icl)
            cur = disagree.get(dk)
            if cur is None or n < cur[0]:
                disagree[dk] = (n, c, what, m["raw"], bad)
    ctx.note("correspondence", stats)
    ctx.note("model_counters", {"max_spin": max([m.get("spin", 0) for m in model.values()] or [0]),
                                "max_excess": max([m.get("excess", 0) for m in model.values()] or [0]),
                                "max_steps_per_input_byte": round(max([m.get("steps", 0) / max(1, len(c["hex"]) // 2)
                                                                       for c in cases for m in [model[c["id"]]]] or [0]), 1)})
    ctx.note("disagreements", [{"kind": k, "entry": v[1]["entry"], "hex": v[1]["hex"][:120], "t": v[1].get("t") or v[1].get("rt") or v[1].get("svc"),
                                "mode": v[1].get("mode"), "model": v[3][:120], "impl": v[2][:80]} for k, v in sorted(disagree.items())][:30])
    ctx.note("valid_alloc", {"max_TotalAlloc_on_valid_streams": max_valid_alloc, "max_bytes_per_input_byte": round(max_ratio, 1),
                             "K": K_ALLOC, "K0": K0_ALLOC})
    ctx.note("oracle_texts_answered", len(oracle_cache))
    ctx.note("rule", "a case is one (entry, input bytes, destination, mode); non-trivial = non-empty input")
    for c in cases[:3]:
        ctx.sample("%s %s -> model %s" % (c["entry"], c["hex"][:40], model[c["id"]]["class"]))

    for key, (n, c, what, mraw) in sorted(failing.items()):
        cc = {k: v for k, v in c.items() if k not in ("id", "gen", "fam")}
        ctx.report(key, "%s on %s input %s (%s)" % (what, c["entry"], c["hex"][:80], c.get("gen")),
                   {"case": cc, "failing_input": True, "model": mraw, "input_ascii": bytes.fromhex(c["hex"])[:120].decode("latin1")})
    # disagreements whose case passes the property oracle: the model no longer describes the code
    soft = [(k, v) for k, v in sorted(disagree.items()) if not v[4]]
    hard_keys = set(failing)
    for k, (n, c, what, mraw, bad) in sorted(disagree.items()):
        if bad:
            ctx.bump("disagreeing_failing_cases", k)
    if soft:
        k, (n, c, what, mraw, bad) = soft[0]
        cc = {kk: v for kk, v in c.items() if kk not in ("id", "gen")}
        ctx.report("correspondence:" + k, "model and implementation disagree on the outcome class (%d kinds, e.g. %s) "
                   "while the property holds on those inputs" % (len(soft), k),
                   {"case": cc, "failing_input": False, "model": mraw, "all_kinds": [x[0] for x in soft][:40],
                    "obligation": "Model/DecBytes.v corresponds to io/*_decoder.go"})
    return proved


def replay(ctx, path):
    r = json.load(open(path))
    hv.build_harness("c04")
    c = dict(r["case"])
    c["id"] = 0
    obs, crashes = run_impl_frames([c], 1)
    o, cr = obs.get(0), crashes.get(0)
    icl, ikey, what = impl_verdict(c, o, cr)
    print(json.dumps(o) if o else (cr[2][:600] if cr else "no observation"))
    print("property oracle: %s %s %s" % (icl, ikey or "ok", what))
    return 1 if (ikey is not None or icl in ("panic", "fatal")) else 0
