"""C04 decoding untrusted bytes never crashes, hangs or over-allocates.

Proof: Props/C04.v over Model/DecBytes.v (byte-level model of Decoder.Decode into a destination
shape, with explicit panic sites, step / allocation / spin counters, and the RPC codec wrappers).
Correspondence: the REAL Unmarshal / serviceCodec.Decode / clientCodec.Decode run under recover()
and a watchdog on hostile inputs (harness/cmd/c04) against the extracted model: agreement on the
outcome class (value / error / panic site / blow-up).  Property oracle (independent of the model):
no panic, no fatal error, no watchdog kill (time / memory), TotalAlloc <= K*len(input)+K0, the
decoded value respects Go's own invariants.

Keys: one per distinct site = innermost /repo frame + class, e.g.
  io.decoderRefer.Read:index-out-of-range     hang:io.arrayDecoder.Decode     overalloc:io.sliceDecoder.Decode"""
import json
import os
import re
import resource

import hv

try:    # the extracted model recurses as deep as the input nests
    _soft, _hard = resource.getrlimit(resource.RLIMIT_STACK)
    _want = 4 << 30
    resource.setrlimit(resource.RLIMIT_STACK, (_want if _hard == resource.RLIM_INFINITY else min(_want, _hard), _hard))
except Exception:
    pass

K_ALLOC = 256          # bytes of TotalAlloc per input byte ...
K0_ALLOC = 1 << 17     # ... plus this much (measured on the valid seed streams: see evidence "valid_alloc")
HEAVY_STEPS = 2 * 10 ** 7
HEAVY_ALLOC = 1 << 24
HANG_STEPS = 5 * 10 ** 9       # model steps above which the executor's 4 s watchdog must fire
FAST_STEPS = 10 ** 6           # below this a watchdog timeout is not expected

# ------------------------------------------------------------------ shapes

REG = {
    "Pt": [("x", {"k": "int"}), ("y", {"k": "int"})],
    "User": [("name", {"k": "string"}), ("age", {"k": "int"}), ("tags", {"k": "slice", "e": {"k": "string"}}),
             ("extra", {"k": "iface"}), ("p", {"k": "ptr", "e": {"k": "reg", "name": "Pt"}})],
}
NUM = {"bool": "nb", "int": "ni0", "int8": "ni8", "int16": "ni16", "int32": "ni32", "int64": "ni64",
       "uint": "nu0", "uint8": "nu8", "uint16": "nu16", "uint32": "nu32", "uint64": "nu64",
       "float32": "nf32", "float64": "nf64"}


def shape(td):
    """model shape of a type descriptor, or None when the model does not cover it"""
    k = td["k"]
    if k in NUM:
        return NUM[k]
    if k == "iface":
        return "I"
    if k == "string":
        return "s"
    if k == "bytes":
        return "y"
    if k == "time":
        return "t"
    if k == "uuid":
        return "g"
    if k in ("bigint", "bigfloat", "bigrat"):
        return {"bigint": "Bi", "bigfloat": "Bf", "bigrat": "Br"}[k]
    if k == "slice":
        if td["e"]["k"] == "uint8":
            return "y"
        e = shape(td["e"])
        return None if e is None else "L" + e
    if k == "ptr":
        e = shape(td["e"])
        return None if e is None else "P" + e
    if k == "array":
        e = shape(td["e"])
        return None if e is None else "A%d:%s" % (td["n"], e)
    if k == "map":
        a, b = shape(td["key"]), shape(td["e"])
        if a is None or b is None or td["key"]["k"] in ("bytes", "slice", "map", "ptr", "array", "anon", "reg",
                                                        "time", "uuid", "bigint", "bigfloat", "bigrat"):
            return None
        return "M" + a + b
    if k == "reg":
        fs = [(n, shape(t)) for n, t in REG[td["name"]]]
        return "S" + td["name"].encode().hex() + "{" + ";".join(n.encode().hex() + ":" + s for n, s in fs) + "}"
    if k == "anon":
        fs = []
        for f in td["fields"]:
            s = shape(f["t"])
            if s is None:
                return None
            alias = f["n"][0].lower() + f["n"][1:]
            fs.append(alias.encode().hex() + ":" + s)
        return "S{" + ";".join(fs) + "}"
    return None


# ------------------------------------------------------------------ keys

SITE_KEY = {
    "ref-index": "io.decoderRefer.Read:index-out-of-range",
    "class-index": "io.Decoder.getStructInfo:index-out-of-range",
    "make-neg-names": "io.Decoder.ReadStruct:makeslice-len-out-of-range",
    "make-neg-uint8": "io.Decoder.readUint8Slice:makeslice-len-out-of-range",
    "make-neg-args": "core.serviceCodec.decodeArguments:makeslice-len-out-of-range",
    "make-neg-str": "io.Decoder.readStringAsBytes:makeslice-cap-out-of-range",
    "alloc-range-names": "io.Decoder.ReadStruct:makeslice-len-out-of-range",
    "alloc-range-uint8": "io.Decoder.readUint8Slice:makeslice-len-out-of-range",
    "alloc-range-args": "core.serviceCodec.decodeArguments:makeslice-len-out-of-range",
    "alloc-range-slice": "io.sliceDecoder.Decode:allocation-size-out-of-range",
    "alloc-range-map": "io.mapDecoder.decodeMap:allocation-size-out-of-range",
    "alloc-range-next": "io.Decoder.next:makeslice-cap-out-of-range",
    "alloc-range-str": "io.Decoder.readStringAsBytes:makeslice-cap-out-of-range",
    "next-neg": "io.Decoder.next:slice-bounds-out-of-range",
    "str-index": "io.Decoder.checkUTF8String:index-out-of-range",
    "str-slice": "io.Decoder.fastReadStringAsBytes:slice-bounds-out-of-range",
    "bigrat-nil": "io.Decoder.decodeBigRat:nil-deref",
    "unhashable": "io.mapDecoder.decodeMap:unhashable-key",
    "ref-nil-set": "io.assignTo:reflect-Set-zero-Value",
    "ref-nil-kind": "io.GetConverter:nil-deref",
    "objmap-field": "io.mapDecoder.decodeObjectAsMap:nil-deref",
    "objmap-key": "fatal:memory-corruption:io.mapDecoder.decodeObjectAsMap",
    "client-count": "core.clientCodec.Decode:index-out-of-range",
    "array-neg": "io.arrayDecoder.Decode:out-of-bounds-write",
}
FATAL_SITES = {"objmap-key", "array-neg"}      # the runtime dies (or the heap is silently damaged): such cases run in a process of their own

PANIC_CLASSES = [
    (r"index out of range", "index-out-of-range"),
    (r"slice bounds out of range", "slice-bounds-out-of-range"),
    (r"makeslice: len out of range", "makeslice-len-out-of-range"),
    (r"makeslice: cap out of range", "makeslice-cap-out-of-range"),
    (r"allocation size out of range", "allocation-size-out-of-range"),
    (r"nil pointer dereference", "nil-deref"),
    (r"hash of unhashable type", "unhashable-key"),
    (r"reflect.Value.Set on zero Value", "reflect-Set-zero-Value"),
    (r"reflect\.Set: value of type", "reflect-Set-type-mismatch"),
    (r"interface conversion", "interface-conversion"),
    (r"assignment to entry in nil map", "nil-map-write"),
    (r"out of memory|cannot allocate memory", "out-of-memory"),
    (r"nameOff|typeOff|name offset|type offset|unexpected fault address|SIGSEGV|SIGBUS|bad pointer|invalid pointer|"
     r"unexpected signal|found pointer to free object|misrounded|corrupt|invalid memory address", "memory-corruption"),
    (r"stack overflow|stack exceeds", "stack-overflow"),
]

OWNER = re.compile(r"(Decoder\.next$|Decoder\.Next$|readStringAsBytes$|ReadStruct$|readUint8Slice$|decodeArguments$|sliceDecoder\.Decode$|"
                   r"arrayDecoder\.Decode$|byteArrayDecoder\.Decode$|mapDecoder\.decodeMap$|decodeListAsMap$|decodeObjectAsMap$|"
                   r"decodeMapAsObject$|listDecoder\.Decode$|readObject$|readObjectAsMap$|decodeObject$|clientCodec\.Decode$|"
                   r"strConverter$)")


def panic_class(msg):
    for pat, cl in PANIC_CLASSES:
        if re.search(pat, msg):
            return cl
    return re.sub(r"[^A-Za-z0-9]+", "-", msg)[:40].strip("-")


def norm_owner(f):
    return {"io.Decoder.Next": "io.Decoder.next", "io.byteArrayDecoder.Decode": "io.arrayDecoder.Decode"}.get(f, f)


def fatal_class(err):
    head = err[:600]
    if re.search(r"out of memory|cannot allocate memory", head):
        return "out-of-memory"
    if re.search(r"stack overflow|stack exceeds", head):
        return "stack-overflow"
    if re.search(r"concurrent map", head):
        return "concurrent-map-access"
    if re.search(r"checkptr", head):
        return "checkptr"
    return "memory-corruption"        # nameOff / typeOff out of range, SIGSEGV in the runtime, bad pointer in the heap ...


def loop_owner(frames):
    """the function that owns the loop / the allocation: the innermost frame among the known owners"""
    for f in frames or []:
        if OWNER.search(f):
            return f
    return (frames or ["?"])[0]


def stderr_frames(err):
    """/repo frames of the crashing goroutine in a fatal runtime dump, innermost first"""
    out = []
    pre = "github.com/hprose/hprose-golang/v3/"
    for ln in err.split("\n"):
        if not ln.startswith(pre):
            continue
        fn = ln[len(pre):].split(" ")[0]
        i = fn.rfind("(")
        if i > 0 and not fn.endswith(")") or fn.endswith("(...)"):
            fn = fn[:fn.rfind("(")]
        elif i > 0 and fn.endswith(")") and not fn[:i].endswith(".") :
            fn = fn[:i]
        fn = fn.split("/")[-1].replace("(*", "").replace(")", "").replace("(", "")
        if fn and fn not in out[-1:]:
            out.append(fn)
        if len(out) >= 40:
            break
    return out


def impl_verdict(case, o, crash):
    """(class, key, what): class in value / error / panic / fatal; key names the failing site (None when fine)"""
    n = len(case["hex"]) // 2
    if o is None:
        rc, err = crash[1], crash[2]
        if "executor watchdog: timeout" in err:
            own = loop_owner(crash[3] if len(crash) > 3 else [])
            if own == "io.strConverter":     # fmt.Sprint of a map that contains itself: killed before the 1 GB stack limit
                return "fatal", "fatal:stack-overflow:io.strConverter", "unbounded recursion (watchdog fired before the stack limit)"
            return "fatal", "hang:" + own, "no result within the watchdog's 4 s"
        if "executor watchdog: memory" in err:
            return "fatal", "overalloc:" + norm_owner(loop_owner(crash[3] if len(crash) > 3 else [])), "heap above 1 GiB"
        cl = fatal_class(err)
        fr = (crash[3] if len(crash) > 3 and crash[3] else stderr_frames(err))
        if cl == "out-of-memory":
            return "fatal", "overalloc:" + norm_owner(loop_owner(fr)), "the runtime ran out of memory (fatal error, rc %s)" % rc
        if cl == "stack-overflow":
            # the dump elides the middle of a deep stack: name the recursion by the /repo function that starts it
            own = [f for f in fr if OWNER.search(f)]
            fr = own[:1] or (["io.strConverter"] if "strConverter" in err else fr)
        if cl == "memory-corruption" and fr and fr[0] == "io.arrayDecoder.Decode":
            return "fatal", "io.arrayDecoder.Decode:out-of-bounds-write", "the executor process died (rc %s): %s" % (rc, err[:160])
        return "fatal", "fatal:%s:%s" % (cl, fr[0] if fr else "?"), "the executor process died (rc %s): %s" % (rc, err[:160])
    if o["outcome"] == "panic" and o.get("frame") == "io.arrayDecoder.Decode" and panic_class(o.get("panic", "")) == "nil-deref":
        return "panic", "io.arrayDecoder.Decode:out-of-bounds-write", "panic: " + o.get("panic", "")[:120]
    if o["outcome"] == "panic":
        return "panic", "%s:%s" % (o.get("frame") or "?", panic_class(o.get("panic", ""))), "panic: " + o.get("panic", "")[:120]
    if o["outcome"] == "builderr":
        return "builderr", None, o.get("err", "")
    cl = o["outcome"]
    if o.get("corrupt"):
        return cl, "corrupt-value:" + re.sub(r"[-0-9]+", "N", o["corrupt"]).replace(" ", "-"), "decoded value breaks a Go invariant: " + o["corrupt"]
    if o["alloc"] > K_ALLOC * n + K0_ALLOC:
        return cl, "overalloc:" + norm_owner(loop_owner([f for f in (o.get("alloc_at") or "").split(";") if f])), "TotalAlloc %d for %d input bytes" % (o["alloc"], n)
    return cl, None, ""


# ------------------------------------------------------------------ running both sides

def model_line(c, fixbits, checked, table):
    ent = {"unmarshal": "U", "service": "S", "client": "C"}[c["entry"]]
    if ent == "U":
        mode = "s" if c.get("mode") != "ref" else "r"
        shp = shape(c["t"])
    elif ent == "S":
        mode = c.get("svc", "a")
        shp = "-"
    else:
        mode = "-"
        shps = [shape(t) for t in c.get("rt", [])]
        shp = None if any(s is None for s in shps) else ("+".join(shps) or "-")
    if shp is None:
        return None
    return " ".join([ent, mode, fixbits, checked, c["hex"] or "-", shp] + table)


def parse_model(out):
    toks = out.split()
    m = {"class": toks[0] if toks else "MODEL-ERROR", "raw": out}
    for t in toks[1:]:
        if "=" in t:
            k, v = t.split("=", 1)
            m[k] = int(v) if re.fullmatch(r"-?\d+", v) else v
    return m


def run_model(cases, fixbits, checked, oracle_cache):
    """model verdicts; the library-parser answers the model asks for come from the executor"""
    res = {}
    todo = [c for c in cases]
    tables = {c["id"]: [] for c in cases}
    for _round in range(12):
        lines, idx = [], []
        for c in todo:
            ln = model_line(c, fixbits, checked, tables[c["id"]])
            if ln is None:
                res[c["id"]] = {"class": "unmod:shape", "raw": ""}
            else:
                lines.append(ln)
                idx.append(c)
        if not lines:
            break
        outs = hv.run_model("c04", lines)
        asks, again = [], []
        for c, o in zip(idx, outs):
            m = parse_model(o)
            if m["class"].startswith("ask:"):
                _, kind, hx = m["class"].split(":")
                hx = "" if hx == "-" else hx
                if (kind, hx) not in oracle_cache:
                    asks.append((kind, hx))
                again.append((c, kind, hx))
            else:
                res[c["id"]] = m
        if asks:
            asks = sorted(set(asks))
            oc = [{"id": i, "entry": "oracle", "kind": k, "hex": h} for i, (k, h) in enumerate(asks)]
            rc, obs, err = hv.run_harness("c04", oc)
            if rc != 0 or len(obs) != len(oc):
                raise hv.EnvError("c04 oracle executor failed: " + err[-500:])
            for (k, h), ob in zip(asks, obs):
                oracle_cache[(k, h)] = bool(ob["ok"])
        todo = []
        for c, kind, hx in again:
            tables[c["id"]].append("%s:%s:%d" % (kind, hx, 1 if oracle_cache[(kind, hx)] else 0))
            todo.append(c)
        if not todo:
            break
    for c in todo:
        res.setdefault(c["id"], {"class": "unmod:oracle-rounds", "raw": ""})
    return res


def run_impl(cases, max_crashes):
    obs, crashes = hv.run_harness_resilient("c04", cases, timeout=3000, max_crashes=max_crashes)
    cr = {}
    for c, rc, err in crashes:
        cr[c["id"]] = [c, rc, err, []]
    return obs, cr


AS_LIMIT = [6 << 30]


def _limit_as():
    # an allocation of tens of GB announced by a dozen bytes must fail at once (fatal "out of memory" with the
    # stack of the allocating goroutine) instead of being mapped lazily: 6 GiB of address space for the executor
    try:
        resource.setrlimit(resource.RLIMIT_AS, (AS_LIMIT[0], AS_LIMIT[0]))
    except Exception:
        pass


def build_checkptr():
    """a second executor compiled with -d=checkptr: unsafe pointer arithmetic that leaves its allocation (an index
    beyond a slice that was not grown, a write before an array) is a fatal error instead of silent damage"""
    hd = os.path.join(hv.V, "harness")
    out = os.path.join(hv.HBIN, "hv-c04-cp")
    cmd = ["go", "build", "-gcflags=all=-d=checkptr", "-tags", "verif", "-o", out]
    if hv.ALT:
        cmd.append("-modfile=" + os.path.join(hv.BUILD, "alt-" + hv.ALT, "go.mod"))
    with hv.Lock("go" + hv.ALT):
        rc, o, e = hv.sh(cmd + ["./cmd/c04"], cwd=hd, env=hv.GOENV, timeout=1800)
    if rc != 0:
        raise hv.EnvError("checkptr build of the c04 executor failed: " + e[-2000:])
    return out


def run_impl_frames(cases, max_crashes, max_hangs=8, exe_name="hv-c04"):
    """like run_harness_resilient, but keeps the /repo frames the executor's watchdog printed"""
    import subprocess
    obs_by_id, crashes = {}, {}
    hangs = 0
    todo = list(cases)
    exe = os.path.join(hv.HBIN, exe_name)
    while todo:
        inp = "".join(json.dumps(c, separators=(",", ":")) + "\n" for c in todo)
        try:
            p = subprocess.run([exe], input=inp, stdout=subprocess.PIPE, stderr=subprocess.PIPE, text=True, timeout=3000,
                               preexec_fn=_limit_as)
            rc, so, se = p.returncode, p.stdout, p.stderr
        except subprocess.TimeoutExpired:
            rc, so, se = 124, "", "TIMEOUT"
        fatal = None
        n_ok = 0
        for ln in so.split("\n"):
            if not ln.strip():
                continue
            try:
                o = json.loads(ln)
            except Exception:
                continue
            if o.get("fatal"):
                fatal = o
            else:
                obs_by_id[o["id"]] = o
                n_ok += 1
        if rc == 0 and n_ok >= len(todo) and fatal is None:
            break
        idx = next((i for i, c in enumerate(todo) if c["id"] not in obs_by_id), None)
        if idx is None:
            break
        c = todo[idx]
        if fatal is not None and fatal["id"] == c["id"]:
            crashes[c["id"]] = [c, rc, "fatal error: case exceeded the executor watchdog: " + fatal["fatal"], fatal.get("frames", [])]
            hangs += fatal["fatal"] == "timeout"
        else:
            crashes[c["id"]] = [c, rc, se[:3000] + " ... " + se[-3000:], stderr_frames(se)]
        todo = todo[idx + 1:]
        if len(crashes) >= max_crashes or hangs >= max_hangs:
            for c2 in todo:
                crashes.setdefault(c2["id"], [c2, -1, "not run: crash budget exhausted", []])
            break
    return obs_by_id, crashes


# ------------------------------------------------------------------ calibration

def attribute_memory_kills(crashes):
    """a case killed by the heap watchdog has no reliable stack (the allocating goroutine is on the system
    stack): run it once more, alone, under a 1.5 GiB address-space limit, so that the big allocation fails at
    once and the runtime prints the allocating stack"""
    for cid, cr in list(crashes.items()):
        if "executor watchdog: memory" not in cr[2]:
            continue
        AS_LIMIT[0] = 3 << 29
        try:
            o1, c1 = run_impl_frames([cr[0]], 1)
        finally:
            AS_LIMIT[0] = 6 << 30
        again = c1.get(cr[0]["id"])
        if again is not None and fatal_class(again[2]) == "out-of-memory" and again[3]:
            cr[3] = again[3]


def calibrate(ctx):
    """Which checks does the tree under test have?  One witness per site / behavioural repair, run
    through the real code: the model is then instantiated with exactly these (fixes, checked)."""
    I = {"k": "iface"}

    def U(s, t=I, mode="simple"):
        return {"entry": "unmarshal", "hex": s.encode("latin1").hex(), "t": t, "mode": mode}
    wit = {
        "ref-index": U("r5;", mode="ref"),
        "class-index": U("o5{}"),
        "make-neg-names": U('c1"A"-1{}'),
        "make-neg-uint8": U("a-1{}", {"k": "bytes"}),
        "make-neg-args": {"entry": "service", "hex": b'Cs3"add"a-1{}z'.hex(), "svc": "a"},
        "next-neg": U('b-5"abc'),
        "str-index": U('s4611686018427387904"abc"'),
        "str-slice": U("u\xf0ab"),
        "bigrat-nil": U("lxyz;", {"k": "bigrat"}),
        "unhashable": U("m1{a{}1}"),
        "ref-nil-set": {"entry": "client", "hex": b"Ra2{1r0;}z".hex(), "rt": [{"k": "int"}, I]},
        "ref-nil-kind": {"entry": "client", "hex": b"Ra2{1r0;}z".hex(), "rt": [{"k": "int"}, {"k": "int"}]},
        "objmap-field": U('c2"Pt"1{s1"q"}o0{1}', {"k": "map", "key": {"k": "string"}, "e": I}),
        "objmap-key": U('c2"Pt"1{s1"x"}o0{1}', {"k": "map", "key": I, "e": I}),
        "array-neg": U("a-100000000{}", {"k": "array", "n": 2, "e": {"k": "int"}}),
        "client-count": {"entry": "client", "hex": b"Ra-1{}z".hex(), "rt": [{"k": "int"}, {"k": "int"}]},
        # behavioural repairs (a count that is negative or larger than the bytes left is refused, per site)
        "fx_count-slice": U("a-1{}", {"k": "slice", "e": {"k": "int"}}),
        "fx_count-map": U("m-1{}"),
        "fx_count-listmap": U("a-1{}", {"k": "map", "key": {"k": "int"}, "e": {"k": "int"}}),
        "fx_count-objmap": U("m-1{}", {"k": "reg", "name": "Pt"}),
        "fx_loop": dict(U("a3{x12}", {"k": "slice", "e": {"k": "int"}}), dump=True),
        "fx_next": U('b70000"ab'),
        "fx_str": U('s70000"ab'),
        "fx_refnil": {"entry": "client", "hex": b"Ra2{1r0;}z".hex(), "rt": [{"k": "int"}, {"k": "string"}]},
        "fx_strmap": dict(U('a2{c1"X"1{s1"f"}o0{n}r2;}', {"k": "slice", "e": {"k": "string"}}, "ref"), dump=True),
    }
    names = sorted(wit)
    cases = []
    for i, n in enumerate(names):
        c = dict(wit[n])
        c["id"] = i
        cases.append(c)
    obs, crashes = run_impl_frames([c for c, n in zip(cases, names) if n not in FATAL_SITES], 30)
    for c, n in zip(cases, names):
        if n in FATAL_SITES:
            o1, c1 = run_impl_frames([c], 2)
            obs.update(o1)
            crashes.update(c1)
    checked, fx = [], {}
    detail = {}
    for i, n in enumerate(names):
        o = obs.get(i)
        if n.startswith("fx_"):
            key = n[3:]
            if o is None:
                fx[key] = False
            elif key.startswith("count-"):
                # a negative count: the pinned code delivers a value (a slice of length -1, an empty map, an untouched struct)
                fx[key] = o["outcome"] == "error" and not o.get("corrupt")
            elif key in ("next", "str"):
                fx[key] = o["alloc"] < 60000
            elif key == "loop":
                # the tree goes on decoding 1 and 2 after the bad element; a loop that stops leaves them 0
                fx[key] = o["outcome"] == "error" and o.get("dump") != "[0 1 2]"
            elif key == "refnil":
                fx[key] = o["outcome"] == "error"
            elif key == "strmap":
                fx[key] = "map[" not in (o.get("dump") or "")
            detail[n] = None if o is None else (o["outcome"], o.get("errclass"), o["alloc"], o.get("dump"))
        else:
            is_panic = (o is None) or o["outcome"] == "panic"
            if not is_panic:
                checked.append(n)
            detail[n] = "panics" if is_panic else "checked"
    # where a negative count panics in the pinned code, the count repair and the hazard check are one and the same
    for key, site in (("count-names", "make-neg-names"), ("count-uint8", "make-neg-uint8"), ("count-args", "make-neg-args"),
                      ("count-array", "array-neg")):
        fx[key] = site in checked
    return checked, fx, detail


# ------------------------------------------------------------------ generators

TAGS = b"0123456789ilndetfNIDTZbusgamcor;{}\"+-.HCREz"
HOT = b"0159-;{}\"nilrcomabsuegdtTD\x00\xff\xf0\xe2\xc3z"
VALUES = lambda n: ["0", "1", str(n), str(n + 1), "-1", str(2 ** 31), str(2 ** 31 - 1), str(2 ** 63), str(10 ** 11)]

I_ = {"k": "iface"}
DESTS = [I_, {"k": "int"}, {"k": "string"}, {"k": "bytes"}, {"k": "float64"}, {"k": "bool"},
         {"k": "slice", "e": I_}, {"k": "slice", "e": {"k": "int"}}, {"k": "array", "n": 2, "e": {"k": "int"}},
         {"k": "map", "key": {"k": "string"}, "e": I_}, {"k": "map", "key": I_, "e": I_},
         {"k": "map", "key": {"k": "int"}, "e": {"k": "string"}},
         {"k": "reg", "name": "User"}, {"k": "ptr", "e": {"k": "reg", "name": "Pt"}}, {"k": "ptr", "e": {"k": "int"}},
         {"k": "bigrat"}, {"k": "bigint"}, {"k": "time"}, {"k": "uuid"},
         {"k": "slice", "e": {"k": "ptr", "e": {"k": "string"}}},
         {"k": "anon", "fields": [{"n": "A", "t": {"k": "int"}}, {"k": "x", "n": "B", "t": {"k": "slice", "e": {"k": "string"}}}]}]
for _d in DESTS:
    if _d.get("k") == "anon":
        for _f in _d["fields"]:
            _f.pop("k", None)


def count_fields(b):
    """(start, end) of every digit run (possibly empty, possibly signed) that the grammar reads as a count,
    length, reference index or class index"""
    out = []
    for m in re.finditer(rb'[amsbor](-?\d*)(?=[{";])', b):
        out.append(m.span(1))
    for m in re.finditer(rb'"(-?\d*)\{', b):          # class field count
        out.append(m.span(1))
    return sorted(set(out))


class Gen:
    def __init__(self, rng, tier):
        self.rng = rng
        self.tier = tier
        self.cases = []
        self.seen = set()
        self.by_gen = {}

    def add(self, gen, base, data, **over):
        c = {"entry": base["entry"], "hex": data.hex()}
        for k in ("t", "mode", "svc", "rt"):
            if k in base:
                c[k] = base[k]
        c.update(over)
        key = json.dumps(c, sort_keys=True)
        if key in self.seen:
            return
        self.seen.add(key)
        c["id"] = len(self.cases)
        c["gen"] = gen
        self.cases.append(c)
        self.by_gen[gen] = self.by_gen.get(gen, 0) + 1


def generate(ctx, seeds):
    rng, quick = ctx.rng, ctx.tier == "quick"
    g = Gen(rng, ctx.tier)
    # (0) fixed corpus of hostile inputs (one per expected site, plus near misses)
    def U(s, t=I_, mode="simple"):
        return {"entry": "unmarshal", "t": t, "mode": mode}, (s if isinstance(s, bytes) else s.encode("latin1"))
    fixed = [
        U("r5;", mode="ref"), U("r0;"), U("r-1;", mode="ref"), U('a2{s1"a"r1;}', mode="ref"), U('a2{s1"a"r2;}', mode="ref"),
        U("o5{}"), U("o0{}"), U("o-1{}"), U('c1"A"1{s1"f"}o0{1}'), U('c1"A"1{s1"f"}o1{1}'),
        U("lxyz;", {"k": "bigrat"}), U("l12;", {"k": "bigrat"}), U("lxyz;", {"k": "bigint"}),
        U("a-1{}"), U("a-1{}", {"k": "slice", "e": {"k": "int"}}), U("a-1{}", {"k": "bytes"}),
        U("a-3{}", {"k": "array", "n": 2, "e": {"k": "int"}}), U("a-100000000{}", {"k": "array", "n": 2, "e": {"k": "int"}}),
        U("m-1{}"), U("m-1{}", {"k": "map", "key": {"k": "string"}, "e": I_}),
        U("u\xf0ab"), U("u\xf0\x9f\x98\x80"), U('s1"\xf0\x9f\x98\x80"'), U('s2"\xf0\x9f\x98\x80"'),
        U('b-5"abc'), U('b3"abc"'), U('b99999"abc'), U('s99999"abc'),
        U("m1{a{}1}"), U('m1{b1"a"1}'), U("m1{m{}1}"), U('m1{s1"a"1}'),
        U('m1{a{}1}', {"k": "map", "key": I_, "e": I_}),
        U('s4611686018427387904"abc"'), U('s3074457345618258603"abc"'), U('s-1"abc"'),
        U('c1"A"-1{}'), U('c1"A"99999{}'), U('c2"Pt"1{s1"q"}o0{1}', {"k": "map", "key": {"k": "string"}, "e": I_}),
        U('c2"Pt"1{s1"x"}o0{1}', {"k": "map", "key": {"k": "string"}, "e": I_}),
        U("a9999{", {"k": "array", "n": 1, "e": {"k": "int"}}), U("a99999{"), U("a99999{", {"k": "slice", "e": {"k": "int"}}),
        U("m99999{"), U("a99999{", {"k": "map", "key": {"k": "int"}, "e": {"k": "int"}}), U("a99999{", {"k": "bytes"}),
        U("a9{}", {"k": "slice", "e": {"k": "int"}}), U("i;"), U("a{1}"), U("d;"), U("i12x"),
        U("n", {"k": "bigrat"}), U('s3"1/0"', {"k": "bigrat"}), U("d1e999;", {"k": "float32"}),
        U('a2{m1{s1"k"r0;}r1;}', {"k": "slice", "e": {"k": "string"}}, "ref"),
        U('a2{c1"X"1{s1"f"}o0{r2;}r2;}', {"k": "slice", "e": {"k": "string"}}, "ref"),
    ]
    for base, data in fixed:
        g.add("fixed", base, data)
    S = lambda s, svc="a": ({"entry": "service", "svc": svc}, s.encode("latin1"))
    for base, data in [S('Cs3"add"a-1{}z'), S('Cs3"add"a99999{}z'), S('Cs3"add"a2{12}z'), S('Cs3"sum"a5{12345}z'),
                       S('Cs3"add"a3{123}z'), S('Cs3"add"a2{1r0;}z'), S('Cs3"add"a2{1r1;}z'), S("z"), S(""), S("x"),
                       S('Hm1{s6"simple"t}Cs3"add"a2{1r0;}z'), S('Hm1{s6"simple"f}Cs4"echo"a1{a1{r1;}}z'),
                       S('Cs4"nope"a2{12}z'), S('Cs4"nope"a2{12}z', "b"), S('Cs4"nope"a-1{}z', "b"), S('Hr0;Cs3"add"z'),
                       S('Hm99999{Cs3"add"z'), S('Cs99999"add')]:
        g.add("fixed", base, data)
    Cl = lambda s, rt: ({"entry": "client", "rt": rt}, s.encode("latin1"))
    II = {"k": "int"}
    for base, data in [Cl("Ra2{1r0;}z", [II, I_]), Cl("Ra2{1r0;}z", [II, II]), Cl("Ra2{1r0;}z", [II, {"k": "string"}]),
                       Cl("Ra2{1r1;}z", [II, I_]), Cl("Ra-1{}z", [II, II]), Cl("Ra99999{}z", [II, II]), Cl("R3z", []),
                       Cl("R3z", [II]), Cl('Es4"boom"z', [II]), Cl("z", [II]), Cl("x", [II]), Cl("Rr0;z", [I_]),
                       Cl("Ra99999{", [{"k": "slice", "e": I_}]), Cl('Hm1{s6"simple"t}Rr0;z', [I_])]:
        g.add("fixed", base, data)

    # (a) the valid streams themselves
    for s in seeds:
        g.add("valid", s, bytes.fromhex(s["hex"]))
    valid_ids = [c["id"] for c in g.cases if c["gen"] == "valid"]
    distinct = {}
    for s in seeds:
        distinct.setdefault((s["entry"], s["hex"], s.get("mode")), []).append(s)

    # (b) truncations, substitutions, insertions, deletions
    for s in seeds:
        b = bytes.fromhex(s["hex"])
        n = len(b)
        ks = range(n) if (n <= 100 or not quick) else sorted(set(list(range(60)) + rng.sample(range(60, n), min(60, n - 60))))
        for k in ks:
            g.add("truncate", s, b[:k])
        pos_all = list(range(n))
        if quick:
            ps = rng.sample(pos_all, min(n, 3))
            vals = lambda: rng.sample(list(HOT), 10) + [rng.randrange(256) for _ in range(3)]
        else:
            ps = rng.sample(pos_all, min(n, 12))
            vals = lambda: list(HOT) + [rng.randrange(256) for _ in range(12)]
        for p in ps:
            for v in vals():
                if v != b[p]:
                    g.add("substitute", s, b[:p] + bytes([v]) + b[p + 1:])
        for p in (pos_all if not quick else rng.sample(pos_all, min(n, 6))):
            g.add("delete", s, b[:p] + b[p + 1:])
        for p in rng.sample(range(n + 1), min(n + 1, 3 if quick else 10)):
            for v in rng.sample(list(HOT), 4 if quick else 12):
                g.add("insert", s, b[:p] + bytes([v]) + b[p:])
    if not quick:
        # exhaustive single-byte substitution (all 255 other values at every position) of every distinct stream
        # of at most 40 bytes, into the first destination it was produced for (at most 600k cases)
        budget_all = 600000
        for (entry, hx, mode), ss in sorted(distinct.items(), key=lambda kv: len(kv[0][1])):
            b = bytes.fromhex(hx)
            if len(b) > 40 or budget_all <= 0:
                continue
            s0 = ss[0]
            for p in range(len(b)):
                for v in range(256):
                    if v != b[p]:
                        g.add("substitute-all", s0, b[:p] + bytes([v]) + b[p + 1:])
                        budget_all -= 1

    # (c) grammar-aware mutations of every count / length / index field
    for s in seeds:
        b = bytes.fromhex(s["hex"])
        cf = count_fields(b)
        if quick and len(cf) > 12:
            cf = rng.sample(cf, 12)
        for (a, e) in cf:
            for v in VALUES(len(b)):
                g.add("field", s, b[:a] + v.encode() + b[e:])

    # (d) arbitrary bytes weighted towards tag bytes
    nrand = 2500 if quick else 40000
    dests = DESTS
    for i in range(nrand):
        n = rng.randint(1, 24)
        data = bytes(rng.choice(TAGS) if rng.random() < 0.85 else rng.randrange(256) for _ in range(n))
        r = rng.random()
        if r < 0.75:
            g.add("random", {"entry": "unmarshal", "t": rng.choice(dests), "mode": rng.choice(["simple", "ref"])}, data)
        elif r < 0.9:
            pre = rng.choice([b"", b'Cs3"add"', b'Cs4"echo"', b'Cs3"sum"a', b'Cs4"user"a', b"C", b'Hm1{s6"simple"t}C', b"H"])
            g.add("random", {"entry": "service", "svc": rng.choice(["a", "b"])}, pre + data)
        else:
            pre = rng.choice([b"", b"R", b"Ra", b"E", b'Hm1{s6"simple"t}R', b"H"])
            rt = rng.choice([[], [I_], [II], [II, I_], [{"k": "string"}, II, I_], [{"k": "reg", "name": "User"}]])
            g.add("random", {"entry": "client", "rt": rt}, pre + data)

    # (e) nesting bombs, digit runs, huge announced lengths
    depths = [10, 1000, 20000] if quick else [10, 1000, 20000, 200000]
    for d in depths:
        for unit, dest in [(b"a1{", I_), (b"m1{1", I_), (b"a1{", {"k": "slice", "e": I_}), (b"a{", I_), (b"c0\"\"{}", I_)]:
            for mode in ("simple", "ref"):
                g.add("bomb", {"entry": "unmarshal", "t": dest, "mode": mode}, unit * d)
    for d in ([100, 20000] if quick else [100, 20000, 1000000]):
        nine = b"9" * d
        for tmpl, dest in [(b"i%s;", I_), (b"l%s;", {"k": "bigint"}), (b"d%s;", I_), (b"a%s{", I_), (b's%s"', I_),
                           (b'b%s"', I_), (b"r%s;", I_), (b"o%s{", I_), (b"i%s;", {"k": "string"})]:
            g.add("digits", {"entry": "unmarshal", "t": dest, "mode": "ref"}, tmpl.replace(b"%s", nine))
    for v in ("100000", str(2 ** 31), str(10 ** 11), str(2 ** 62), "-100000", str(-(2 ** 31))):
        for tmpl, dest in [('a%s{', I_), ('a%s{', {"k": "slice", "e": {"k": "int"}}), ('a%s{', {"k": "array", "n": 2, "e": II}),
                           ('a%s{', {"k": "bytes"}), ('a%s{', {"k": "map", "key": II, "e": II}), ('m%s{', I_),
                           ('m%s{', {"k": "map", "key": {"k": "string"}, "e": II}), ('m%s{', {"k": "reg", "name": "Pt"}),
                           ('s%s"ab', I_), ('b%s"ab', I_), ('c1"A"%s{', I_), ('a2{a%s{', I_), ('u', I_)]:
            g.add("announce", {"entry": "unmarshal", "t": dest, "mode": "simple"}, (tmpl.replace("%s", v)).encode())
        g.add("announce", {"entry": "service", "svc": "a"}, ('Cs3"sum"a%s{' % v).encode())
        g.add("announce", {"entry": "service", "svc": "b"}, ('Cs3"xyz"a%s{' % v).encode())
        g.add("announce", {"entry": "client", "rt": [II, II]}, ('Ra%s{' % v).encode())
        g.add("announce", {"entry": "client", "rt": [{"k": "slice", "e": II}]}, ('Ra%s{' % v).encode())
    return g


# ------------------------------------------------------------------ comparison

def expected_from_model(m, n=0):
    """what the model predicts of the implementation: (kind, detail)
       kind: value | error | panic | blowup | corrupt | skip | unsure"""
    cl = m["class"]
    if cl.startswith("unmod") or cl.startswith("ask") or cl == "MODEL-ERROR" or cl == "fuel":
        return ("skip", cl)
    steps, alloc = m.get("steps", 0), max(m.get("alloc", 0), m.get("rsv", 0))
    if (cl.startswith("panic:") or cl in ("value", "error")) and m.get("rsv", 0) >= (1 << 31):
        return ("blowup", "reserved=%d" % m.get("rsv", 0))       # the up-front make / grow comes before anything else
    if cl.startswith("panic:"):
        return ("panic", cl[6:])
    if steps >= HANG_STEPS or alloc >= (1 << 31):
        return ("blowup", "steps=%d alloc=%d" % (steps, alloc))
    if steps > FAST_STEPS or alloc > HEAVY_ALLOC:
        return ("unsure", "steps=%d alloc=%d" % (steps, alloc))
    if alloc > 4 * (K_ALLOC * n + K0_ALLOC):
        return ("overalloc", cl)
    if alloc > (K_ALLOC * n + K0_ALLOC) // 4:
        return ("unsure", "alloc=%d near the bound" % alloc)
    if m.get("corrupt") == 1:
        return ("corrupt", cl)
    return (cl, "")


def agree(exp, icl, ikey, case_len, m, o):
    kind, det = exp
    if kind == "skip":
        return None
    if kind == "unsure":
        return None
    if kind == "panic":
        want = SITE_KEY.get(det, det)
        if det in FATAL_SITES:
            return True if ikey == want else None      # the damage need not be visible at once
        if icl == "panic":
            return ikey == want
        if icl == "fatal" and det.startswith("alloc-range"):
            return True
        return False
    if kind == "blowup":
        return icl == "fatal" or (ikey or "").startswith("overalloc")
    if kind == "overalloc":
        return icl == "fatal" or (ikey or "").startswith("overalloc")
    if kind == "corrupt":
        if (ikey or "").startswith("corrupt-value"):
            return True
        return None if icl in ("value", "error", "fatal") else False      # writes before an array: not observable
    if icl not in ("value", "error"):
        return False
    if ikey is not None:        # over-allocation or corrupt value the model did not predict
        return False
    return kind == icl


def corpus_cases(ctx):
    """minimised inputs of repaired defects run first, each case in a process of its own; they must pass the oracle"""
    import glob
    n = 0
    for path in sorted(glob.glob(os.path.join(hv.V, "corpus", "C04-*.json"))):
        r = json.load(open(path))
        for k, case in enumerate(r.get("cases", [])):
            c = dict(case)
            c["id"] = 0
            obs, crashes = run_impl_frames([c], 1)
            icl, ikey, what = impl_verdict(c, obs.get(0), crashes.get(0))
            n += 1
            bad = ikey is not None or icl in ("panic", "fatal")
            if r.get("status") == "fixed" and bad:
                ctx.report("corpus:" + os.path.basename(path),
                           "a repaired defect (%s, %s) fails again on case %d: %s %s" % (r.get("key"), r.get("fixed_by"), k, ikey or icl, what),
                           {"case": case, "failing_input": True, "corpus": os.path.basename(path)})
            elif r.get("status") == "known" and bad:
                ctx.report(r["key"], what, {"case": case, "failing_input": True, "corpus": os.path.basename(path)})
    ctx.note("corpus_cases_run_first", n)


def run(ctx):
    import time
    T = {}
    t0 = time.time()
    proved = ctx.prove()
    T["prove"] = round(time.time() - t0, 1); t0 = time.time()
    hv.build_harness("c04")
    hv.build_modelrun("c04")
    ctx.assumptions += [
        "in-memory input only (NewDecoder / ResetBytes: reader == nil), default decoder options",
        "library parsers (strconv, math/big, uuid, time layouts) are oracles: their accept/reject answers are "
        "obtained from the real library per text and handed to the model as a finite table; the theorems hold for every oracle",
        "model counters (steps, alloc) bound the model; wall time / TotalAlloc of the executor only validate that they track reality",
    ]
    rc, obs, err = hv.run_harness("c04", [{"id": 0, "entry": "seeds", "hex": ""}])
    if rc != 0 or not obs:
        raise hv.EnvError("c04 executor cannot produce its seed corpus: " + err[-500:])
    seeds = obs[0]["seeds"]
    checked, fx, detail = calibrate(ctx)
    fixbits = ",".join(sorted(k for k, v in fx.items() if v)) or "-"
    checked_s = ",".join(checked) if checked else "-"
    ctx.note("tree_checks", {"checked_sites": checked, "behavioural_repairs": fx, "witnesses": detail})

    T["build+calibrate"] = round(time.time() - t0, 1); t0 = time.time()
    corpus_cases(ctx)
    T["corpus"] = round(time.time() - t0, 1); t0 = time.time()
    g = generate(ctx, seeds)
    cases = g.cases
    T["generate"] = round(time.time() - t0, 1); t0 = time.time()
    ctx.note("generators", g.by_gen)
    oracle_cache = {}
    model = run_model(cases, fixbits, checked_s, oracle_cache)

    T["model"] = round(time.time() - t0, 1); t0 = time.time()
    # schedule: cases the model expects to blow up go to a separate, budgeted batch
    light, heavy, alone = [], [], []
    for c in cases:
        m = model[c["id"]]
        if m["class"].startswith("panic:") and m["class"][6:] in FATAL_SITES:
            alone.append(c)
            continue
        big = (m.get("steps", 0) > HEAVY_STEPS or max(m.get("alloc", 0), m.get("rsv", 0)) > HEAVY_ALLOC or len(c["hex"]) > 400000)
        (heavy if big else light).append(c)
    budget = 12 if ctx.tier == "quick" else 60
    hang_budget = 3 if ctx.tier == "quick" else 14
    chosen, sig_seen = [], {}
    for c in sorted(heavy, key=lambda c: len(c["hex"])):
        m = model[c["id"]]
        hang = m.get("steps", 0) >= HANG_STEPS and max(m.get("alloc", 0), m.get("rsv", 0)) < (1 << 30)
        sig = (c["entry"], json.dumps(c.get("t") or c.get("rt") or c.get("svc")), "hang" if hang else "mem", c["hex"][:2])
        if sig in sig_seen:
            continue
        if hang:
            if hang_budget <= 0:
                continue
            hang_budget -= 1
        if len(chosen) >= budget:
            break
        sig_seen[sig] = 1
        chosen.append(c)
    ctx.note("heavy_cases", {"model_predicted": len(heavy), "executed": len(chosen)})

    obs, crashes = run_impl_frames(light, 4000, 4 if ctx.tier == "quick" else 30)
    T["impl_light"] = round(time.time() - t0, 1); t0 = time.time()
    obs2, crashes2 = run_impl_frames(chosen, 200, 20)
    T["impl_heavy"] = round(time.time() - t0, 1); t0 = time.time()
    obs.update(obs2)
    crashes.update(crashes2)
    ctx.rng.shuffle(alone)
    alone_run = sorted(alone[:(8 if ctx.tier == "quick" else 40)], key=lambda c: len(c["hex"]))
    for c in alone_run:
        o1, c1 = run_impl_frames([c], 2)
        obs.update(o1)
        crashes.update(c1)
    T["impl_isolated"] = round(time.time() - t0, 1); t0 = time.time()
    ctx.note("isolated_cases", {"model_predicted_fatal": len(alone), "executed_each_in_its_own_process": len(alone_run)})
    attribute_memory_kills(crashes)
    # memory-safety pass: the valid streams (among them lists longer than any up-front reservation), the fixed
    # corpus and a sample of the mutants once more through the checkptr executor
    build_checkptr()
    sample = [c for c in light if c["gen"] in ("valid", "fixed")]
    rest_light = [c for c in light if c["gen"] not in ("valid", "fixed")]
    ctx.rng.shuffle(rest_light)
    sample += rest_light[:(3000 if ctx.tier == "quick" else 30000)]
    cp_obs, cp_crashes = run_impl_frames(sample, 50, 4, exe_name="hv-c04-cp")
    n_cp = 0
    for c in sample:
        cr = cp_crashes.get(c["id"])
        if cr is not None and cr[1] != -1 and fatal_class(cr[2]) == "checkptr":
            n_cp += 1
            if c["id"] not in crashes:
                crashes[c["id"]] = cr
                obs.pop(c["id"], None)
    ctx.note("checkptr_pass", {"cases": len(sample), "unsafe_pointer_faults": n_cp})
    T["impl_checkptr"] = round(time.time() - t0, 1); t0 = time.time()
    ctx.note("phase_seconds", T)
    ran = {c["id"] for c in light} | {c["id"] for c in chosen} | {c["id"] for c in alone_run}

    failing = {}      # key -> (len, case, what, model)
    disagree = {}
    stats = {"agree": 0, "disagree": 0, "skipped": 0, "inconclusive": 0, "oracle_fail": 0}
    max_ratio, max_valid_alloc = 0.0, 0
    for c in cases:
        if c["id"] not in ran:
            continue
        o = obs.get(c["id"])
        cr = crashes.get(c["id"])
        if o is None and cr is None:
            continue
        if cr is not None and cr[1] == -1:
            continue
        m = model[c["id"]]
        icl, ikey, what = impl_verdict(c, o, cr)
        if icl == "builderr":
            raise hv.EnvError("c04 executor cannot build a case: " + what)
        n = len(c["hex"]) // 2
        ctx.count_case("%s|%s|%s|%s" % (c["entry"], c["hex"], json.dumps(c.get("t") or c.get("rt")), c.get("mode") or c.get("svc")),
                       nontrivial=n > 0)
        ctx.bump("impl_outcomes", icl)
        ctx.bump("model_outcomes", m["class"].split(":")[0] + (":" + m["class"].split(":")[1] if m["class"].startswith("panic") else ""))
        if c["gen"] == "valid" and o is not None:
            max_valid_alloc = max(max_valid_alloc, o["alloc"])
            if n:
                max_ratio = max(max_ratio, (o["alloc"] - 0) / n)
        # property oracle, independent of the model
        bad = ikey is not None or icl in ("panic", "fatal")
        if bad:
            stats["oracle_fail"] += 1
            cur = failing.get(ikey)
            if cur is None or n < cur[0]:
                failing[ikey] = (n, c, what, m["raw"])
            ctx.bump("failing_by_key", ikey)
        # correspondence
        a = agree(expected_from_model(m, n), icl, ikey, n, m, o)
        if a is None:
            stats["skipped" if expected_from_model(m, n)[0] == "skip" else "inconclusive"] += 1
        elif a:
            stats["agree"] += 1
            if o is not None and m.get("err") not in (None, "-") and o.get("errclass"):
                ctx.bump("errclass_pairs", "%s/%s" % (m.get("err"), o.get("errclass")))
        else:
            stats["disagree"] += 1
            dk = "%s~%s" % (m["class"].split(" ")[0], ikey or icl)
            cur = disagree.get(dk)
            if cur is None or n < cur[0]:
                disagree[dk] = (n, c, what, m["raw"], bad)
    ctx.note("correspondence", stats)
    ctx.note("model_counters", {"max_spin": max([m.get("spin", 0) for m in model.values()] or [0]),
                                "max_excess": max([m.get("excess", 0) for m in model.values()] or [0]),
                                "max_steps_per_input_byte": round(max([m.get("steps", 0) / max(1, len(c["hex"]) // 2)
                                                                       for c in cases for m in [model[c["id"]]]] or [0]), 1)})
    ctx.note("disagreements", [{"kind": k, "entry": v[1]["entry"], "hex": v[1]["hex"][:120], "t": v[1].get("t") or v[1].get("rt") or v[1].get("svc"),
                                "mode": v[1].get("mode"), "model": v[3][:120], "impl": v[2][:80]} for k, v in sorted(disagree.items())][:30])
    ctx.note("valid_alloc", {"max_TotalAlloc_on_valid_streams": max_valid_alloc, "max_bytes_per_input_byte": round(max_ratio, 1),
                             "K": K_ALLOC, "K0": K0_ALLOC})
    ctx.note("oracle_texts_answered", len(oracle_cache))
    ctx.note("rule", "a case is one (entry, input bytes, destination, mode); non-trivial = non-empty input")
    for c in cases[:3]:
        ctx.sample("%s %s -> model %s" % (c["entry"], c["hex"][:40], model[c["id"]]["class"]))

    for key, (n, c, what, mraw) in sorted(failing.items()):
        cc = {k: v for k, v in c.items() if k not in ("id", "gen")}
        ctx.report(key, "%s on %s input %s (%s)" % (what, c["entry"], c["hex"][:80], c.get("gen")),
                   {"case": cc, "failing_input": True, "model": mraw, "input_ascii": bytes.fromhex(c["hex"])[:120].decode("latin1")})
    # disagreements whose case passes the property oracle: the model no longer describes the code
    soft = [(k, v) for k, v in sorted(disagree.items()) if not v[4]]
    hard_keys = set(failing)
    for k, (n, c, what, mraw, bad) in sorted(disagree.items()):
        if bad:
            ctx.bump("disagreeing_failing_cases", k)
    if soft:
        k, (n, c, what, mraw, bad) = soft[0]
        cc = {kk: v for kk, v in c.items() if kk not in ("id", "gen")}
        ctx.report("correspondence:" + k, "model and implementation disagree on the outcome class (%d kinds, e.g. %s) "
                   "while the property holds on those inputs" % (len(soft), k),
                   {"case": cc, "failing_input": False, "model": mraw, "all_kinds": [x[0] for x in soft][:40],
                    "obligation": "Model/DecBytes.v corresponds to io/*_decoder.go"})
    return proved


def replay(ctx, path):
    r = json.load(open(path))
    hv.build_harness("c04")
    c = dict(r["case"])
    c["id"] = 0
    obs, crashes = run_impl_frames([c], 1)
    o, cr = obs.get(0), crashes.get(0)
    icl, ikey, what = impl_verdict(c, o, cr)
    print(json.dumps(o) if o else (cr[2][:600] if cr else "no observation"))
    print("property oracle: %s %s %s" % (icl, ikey or "ok", what))
    return 1 if (ikey is not None or icl in ("panic", "fatal")) else 0
