"""C03: encoder output is well-formed Hprose and denotes the value.
Proof: Props/C03.v (reader inverts printer for every wire tree; encoder model output token-legal and
readable as exactly one value).  Tie: every byte string io.Marshal produces is (1) compared byte for byte
with emit(enc v) of the model and (2) fed to the proved reader Wire.parse (extracted), checked for
reference/class/count consistency (WireSem.denote) and for denoting abs(v)."""
import json
import hv, iogen, iorun, iosuite, ioeval


def build_cases(ctx, reg):
    g = iogen.Gen(ctx.rng, reg)
    quick = ctx.tier == "quick"
    cases = iosuite.corpus_cases("C03")
    cases += iogen.scalar_matrix(g)
    cases += iogen.named_scalar_matrix(g)
    cases += iosuite.strings_family(g)
    cases += iosuite.utf8_shapes_family(g, quick)
    cases += iosuite.maps_family(g)
    cases += iosuite.times_family(g)
    cases += iosuite.probe_family(g)
    cases += iosuite.slices2d_family(g)
    cases += iosuite.sequences_family(g, 40 if quick else 600)
    cases += iosuite.graphs_family(g, 6 if quick else 60)
    cases += iosuite.registered(g, reg, 15 if quick else 200, roundtrip=False)
    return cases


def run(ctx):
    ctx.level = "proof"
    ctx.assumptions += [
        "oracles: strconv/big float text, uuid text and clock fields are taken from the standard library by the harness walker",
        "the Go value is described to the model by reflection (harness/cmd/io/walk.go), including pointer identities",
        "maps with two or more entries are compared by denotation only (iteration order is arbitrary)",
    ]
    ctx.prove()
    reg = iorun.prepare(ctx)
    cases = build_cases(ctx, reg)
    recs, crashes = iorun.run_cases(ctx, cases)
    ioeval.run_property(ctx, recs, crashes, ioeval.c03, "C03")
    ctx.note("rule", "type-exhaustive scalar matrix (17 kinds x boundary values x 10 container positions), string shapes x positions, "
             "all specialised map key/value pairs, times, reference probes for every referable construct, pointer graphs, random values "
             "of the registered struct types; x {simple, reference} mode; non-trivial = more than 3 output bytes; distinct by (mode,type,value)")


def replay(ctx, path):
    r = json.load(open(path))
    reg = iorun.prepare(ctx)
    c = dict(r["case"])
    recs, crashes = iorun.run_cases(ctx, [c])
    bad = 0
    for rec in recs:
        for m, d in rec["modes"].items():
            f = ioeval.c03(rec, m, d)
            print(m, d["go"].get("hex"), f)
            bad += len(f)
    return 1 if bad or crashes else 0
