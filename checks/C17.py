"""C17 limiters: proof (Props/C17.v) + correspondence of Model/Sem.v and Model/Rate.v with the real
ConcurrentLimiter / RateLimiter plugins.

  sem   history checking: the event log of an instrumented next-handler (one mutex) is replayed
        through the extracted LTS of Model/Sem.v; every logged step must be enabled.
  rate  every sequential call of RateLimiter.Acquire is compared with Rate.acquire evaluated at
        both ends of the clock window measured around the call, from the observed l.next.
  plug  the same through Client.Use(rateLimiter) + Invoke (InvokeHandler then IOHandler).
  conc  forced schedules at the yield hook between the load and the store of l.next (only when
        the tree under test has the hook: hooks/c17-limiter.patch), compared with Rate.rrun.

The property's own oracle (written from the property text, in Python, not from the Coq model) is
evaluated on every observation."""
import json
import os
from fractions import Fraction
import hv

SEC = 10**9


# ------------------------------------------------------------------------------- generation

def gen_sem_case(rng, cid):
    mx = rng.choice([1, 1, 2, 2, 3, 4, 5, 8])
    fam = rng.choice(["block", "block", "timeout", "timeout", "race", "nocancel", "nocancel"])
    tmo = 0 if fam in ("block", "nocancel") else rng.choice([20000, 25000, 30000])
    ops = []
    st = {"nxt": 0, "started": 0}
    running = set()

    def start_run():
        ops.append({"op": "start", "i": st["nxt"], "expect": "run"})
        running.add(st["started"])
        st["started"] += 1
        st["nxt"] += 1

    def start_block():
        ops.append({"op": "start", "i": st["nxt"], "expect": "block"})
        st["nxt"] += 1
        return st["nxt"] - 1

    fill = mx if rng.random() < 0.8 else rng.randint(0, mx)
    for _ in range(fill):
        start_run()
    if fam == "block":
        waiting = 0
        for _ in range(rng.randint(3, 12)):
            if rng.random() < 0.45 and st["nxt"] < 16:
                if len(running) == mx:
                    start_block()
                    waiting += 1
                else:
                    start_run()
            elif running:
                k = rng.choice(sorted(running))
                ops.append({"op": "finish", "k": k, "out": rng.choice("OEP")})
                running.discard(k)
                if waiting > 0:
                    ops.append({"op": "await_starts", "k": st["started"] + 1})
                    running.add(st["started"])
                    st["started"] += 1
                    waiting -= 1
    elif fam == "nocancel":
        # limiter WITHOUT timeout, full; callers queue with contexts that are already cancelled, get
        # cancelled while queued, or expire while queued: they must stay queued (the time given to a
        # wrong implementation to let them through only matters for catching it, not for the verdict)
        while len(running) < mx:
            start_run()
        waiting = 0
        to_cancel = []
        for _ in range(rng.randint(1, 4)):
            kind = rng.choice(["cancelled", "cancel", "deadline"])
            ops.append({"op": "start", "i": st["nxt"], "expect": "block", "ctx": kind, "us": rng.choice([200, 1000, 3000])})
            if kind == "cancel":
                to_cancel.append(st["nxt"])
            st["nxt"] += 1
            waiting += 1
        for w in to_cancel:
            ops.append({"op": "cancel", "i": w})
        ops.append({"op": "sleep", "us": 6000})
        for _ in range(rng.randint(1, 6)):
            if not running:
                break
            k = rng.choice(sorted(running))
            ops.append({"op": "finish", "k": k, "out": rng.choice("OEP")})   # a Release that must not block
            running.discard(k)
            if waiting > 0:
                ops.append({"op": "await_starts", "k": st["started"] + 1})   # a queued caller gets that permit
                running.add(st["started"])
                st["started"] += 1
                waiting -= 1
    elif fam == "timeout":
        for _ in range(rng.randint(1, 2)):
            while len(running) < mx:
                start_run()
            ws = [start_block() for _ in range(rng.randint(1, 3))]
            for w in ws:
                ops.append({"op": "await_done", "i": w})      # all permits are held: they must time out
            for _ in range(rng.randint(1, len(running))):
                k = rng.choice(sorted(running))
                ops.append({"op": "finish", "k": k, "out": rng.choice("OEP")})
                running.discard(k)
            for _ in range(rng.randint(0, mx - len(running))):
                start_run()                                     # permits were returned: must get in
    else:  # race: a release near the moment the waiters' timers fire; either outcome is legal
        while len(running) < mx:
            start_run()
        ws = [start_block() for _ in range(rng.randint(1, 3))]
        us = rng.randint(max(0, tmo - 4000), tmo + 2000) if rng.random() < 0.6 else rng.randint(0, tmo // 2)
        ops.append({"op": "sleep", "us": us})
        k = rng.choice(sorted(running))
        ops.append({"op": "finish", "k": k, "out": rng.choice("OEP")})
        for w in ws:
            ops.append({"op": "await_any", "i": w})
    ops.append({"op": "drain"})
    return {"id": cid, "kind": "sem", "max": mx, "timeout_us": tmo, "ops": ops, "fam": fam}


def gen_free_case(rng, cid, quick):
    """A time-out or a cancellation racing with a send that can succeed (free or just freed slot)."""
    mode = rng.choice(["t1ns", "t1ns", "precancelled", "precancelled", "concancel", "wake", "wake", "ntcancel", "ntcancel"])
    mx = rng.choice([1, 2, 3, 5])
    via = "acquire" if mode in ("wake", "ntcancel") else rng.choice(["acquire", "handler"])
    if mode == "t1ns":
        n = rng.randint(300, 500)
    elif mode in ("wake", "ntcancel"):
        n = rng.randint(12, 30) if quick else rng.randint(30, 80)
    else:
        n = rng.randint(100, 300)
    return {"id": cid, "kind": "free", "max": mx, "mode": mode, "via": via, "n": n,
            "hold": 0 if mode in ("wake", "ntcancel") else rng.randint(0, mx - 1),
            "timeout_ns": {"t1ns": 1, "wake": 10**9, "ntcancel": 0}.get(mode, 50 * 10**6)}


POW2 = [512, 256, 128, 64]
DECPPS = [1000, 2000, 4000, 5000, 10000, 20000, 50000, 100000]


def gen_rate_case(rng, cid, kind="rate"):
    pow2 = rng.random() < 0.4
    if pow2:
        interval = rng.choice(POW2)
        scale = rng.choice([200, 1000, 4000])        # tokens per call so that waits are 0.1..2 ms
    else:
        interval = SEC // rng.choice(DECPPS)
        scale = max(1, rng.choice([20000, 100000, 400000]) // interval)
    pps = SEC // interval
    burst = rng.choice([-1, -1, 0, 1, 2, 5, 10]) if not pow2 else rng.choice([-1, 0, 1, scale, 5 * scale])
    unit = scale * interval                           # nanoseconds one typical call costs
    tmo = rng.choice([0, 0, unit // 2, 2 * unit, 5 * unit])
    cancelled = rng.random() < 0.5
    n = rng.randint(6, 24)
    calls = []
    budget = 25 * 10**6                               # at most ~25 ms of real waiting per case
    for _ in range(n):
        t = rng.choice([0, 1, 1, 1, 2, 3]) * rng.randint(max(1, scale // 2), scale) if scale > 1 else rng.choice([0, 1, 1, 1, 2, 3, 8])
        if kind == "plug":
            t = 1
        gap = rng.choice([0, 0, 0, 0, 50, 300, 1500, 4000])
        if not cancelled:
            if budget - t * interval < 0:
                t = 0
            budget -= t * interval
        calls.append({"tokens": t, "gap_us": gap})
    return {"id": cid, "kind": kind, "pps": pps, "burst": burst, "timeout_ns": tmo, "cancelled": cancelled,
            "calls": calls, "interval": interval, "pow2": pow2}


# rates that do not divide 1e9, over the whole range: the interval 1e9/pps is not a whole number
NONDIV = [3, 7, 333, 2999, 48000, 123457, 700001, 1000001, 30000001, 300000000, 600000000, 750000001, 999000000]


def ival(case):
    """The interval of the case as an exact rational number of nanoseconds per permit."""
    return Fraction(SEC, case["pps"])


def model_head(case):
    if "interval" in case and SEC % case["pps"] == 0:
        return ["rate", str(case["interval"])]
    return ["rateq", str(case["pps"])]


def gen_rate_any_case(rng, cid, sustained=False):
    """Any rate; multi-token calls.  sustained: real waits of several ms per call at a high rate, so that
    the admitted amount per measured time is close to the configured rate."""
    if sustained:
        pps = rng.choice([600000000, 600000000, 550000000, 700000000, 350000000, 999000000 // 2 + 1, 1000001])
        per_call_ns = rng.choice([8, 10]) * 10**6
        t = per_call_ns * pps // SEC
        calls = [{"tokens": t, "gap_us": 0} for _ in range(rng.randint(6, 8))]
        return {"id": cid, "kind": "rate", "pps": pps, "burst": rng.choice([0, 0, 1]), "timeout_ns": 0, "cancelled": False,
                "calls": calls, "pow2": False, "nondiv": True, "sustained": True}
    pps = rng.choice(NONDIV)
    unit_ns = rng.choice([20000, 100000, 400000])
    scale = max(1, unit_ns * pps // SEC)
    cancelled = rng.random() < 0.5 or pps < 2000      # one permit lasts longer than 0.5 ms: never wait for real
    burst = rng.choice([-1, -1, 0, 1, 2, scale, 5 * scale])
    unit = int(scale * SEC // pps)
    tmo = rng.choice([0, 0, unit // 2, 2 * unit, 5 * unit])
    calls = []
    budget = 25 * 10**6
    for _ in range(rng.randint(6, 24)):
        if scale > 1:
            t = rng.choice([0, 1, 1, 1, 2, 3]) * rng.randint(max(1, scale // 2), scale)
        else:
            t = rng.choice([0, 1, 1, 2, 3, 8, 100, 12345])
        cost = t * SEC // pps
        if not cancelled:
            if budget - cost < 0:
                t = 0
                cost = 0
            budget -= cost
        calls.append({"tokens": t, "gap_us": rng.choice([0, 0, 0, 0, 50, 300, 1500, 4000])})
    return {"id": cid, "kind": "rate", "pps": pps, "burst": burst, "timeout_ns": tmo, "cancelled": cancelled,
            "calls": calls, "pow2": False, "nondiv": True}


def gen_plug_any_case(rng, cid):
    """Through Client.Use: the IOHandler charges len(request) tokens (byte-rate limiting)."""
    pps = rng.choice([333, 123457, 1000001, 30000001, 300000000, 600000000, 999000000])
    arg = rng.choice([0, 100, 5000, 40000])
    cancelled = rng.random() < 0.7 or (arg + 30) * SEC // pps > 2 * 10**6
    return {"id": cid, "kind": "plug", "pps": pps, "burst": rng.choice([-1, 0, 2, 10000]),
            "timeout_ns": rng.choice([0, 0, 3 * SEC // pps + 1, (arg + 100) * SEC // pps]),
            "cancelled": cancelled, "arg_len": arg, "pow2": False, "nondiv": True,
            "calls": [{"tokens": 1, "gap_us": rng.choice([0, 0, 50, 1000])} for _ in range(rng.randint(4, 12))]}


def gen_plug_case(rng, cid):
    interval = rng.choice([512, 1000, 10000, 100000])
    c = gen_rate_case(rng, cid, "plug")
    c["interval"] = interval
    c["pps"] = SEC // interval
    c["pow2"] = interval == 512
    c["burst"] = rng.choice([-1, 0, 2, 10])
    c["timeout_ns"] = rng.choice([0, 3 * interval, 20 * interval])
    c["cancelled"] = rng.random() < 0.7
    c["calls"] = c["calls"][:12]
    return c


def gen_conc_case(rng, cid, pattern):
    interval = rng.choice([4000000, 5000000])    # well above the timer granularity of the machine
    return {"id": cid, "kind": "conc", "pps": SEC // interval, "interval": interval, "burst": rng.choice([0, 0, 1]),
            "timeout_ns": 0, "threads": rng.choice([2, 2, 3]), "rounds": rng.randint(6, 8), "tokens": 1,
            "pattern": pattern, "pow2": False}


def gen_cases(ctx, hook):
    quick = ctx.tier == "quick"
    cases = []
    cid = 0
    for _ in range(140 if quick else 900):
        cid += 1
        cases.append(gen_sem_case(ctx.rng, cid))
    for _ in range(40 if quick else 300):
        cid += 1
        cases.append(gen_free_case(ctx.rng, cid, quick))
    for _ in range(140 if quick else 1200):
        cid += 1
        cases.append(gen_rate_case(ctx.rng, cid))
    for _ in range(30 if quick else 200):
        cid += 1
        cases.append(gen_plug_case(ctx.rng, cid))
    for k in range(70 if quick else 600):
        cid += 1
        cases.append(gen_rate_any_case(ctx.rng, cid, sustained=(k % 10 == 0)))
    for _ in range(25 if quick else 200):
        cid += 1
        cases.append(gen_plug_any_case(ctx.rng, cid))
    if hook:
        # corpus first: the recorded witness of the lost update
        cdir = os.path.join(hv.V, "corpus")
        for f in sorted(os.listdir(cdir)) if os.path.isdir(cdir) else []:
            if f.startswith("C17-") and f.endswith(".json"):
                try:
                    cc = dict(json.load(open(os.path.join(cdir, f)))["case"])
                except Exception:
                    continue
                cid += 1
                cc["id"] = cid
                cases.append(cc)
        for k in range(8 if quick else 40):
            cid += 1
            cases.append(gen_conc_case(ctx.rng, cid, "interleave" if k % 4 != 3 else "atomic"))
    return cases


# ------------------------------------------------------------------------------ sem: model side

def sem_model_line(case, obs):
    """Event log -> schedule of the LTS.  E enter, S acquire, F end then (eagerly) release, D with
    ErrTimeout -> time-out step.  The deferred receive is not observable by itself: it happens
    after F is logged and before D is logged; placing it right after F is the choice that enables
    the most later steps (a release only ever enables), so a log that cannot be replayed this way
    cannot be replayed at all."""
    n = max([e["i"] for e in obs["log"]] + [-1]) + 1
    evs = []
    for e in obs["log"]:
        if e["e"] == "E":
            evs.append("E%d" % e["i"])
        elif e["e"] == "S":
            evs.append("A%d" % e["i"])
        elif e["e"] == "F":
            evs.append("F%s%d" % (e["o"].lower(), e["i"]))
            evs.append("R%d" % e["i"])
        elif e["e"] == "D" and e["o"] == "T":
            evs.append("T%d" % e["i"])
        elif e["e"] == "C":
            evs.append("C%d" % e["i"])
    return "sem %d %d %d %s" % (case["max"], case["timeout_us"], n, " ".join(evs)), n


def sem_compare(case, obs, mout, n):
    """-> None or a description of the disagreement between the log and the model."""
    if mout.startswith("MODEL-ERROR"):
        return "model runner failed on the logged history: " + mout
    f = dict(x.split("=", 1) for x in mout.split(" ")[1:])
    head = mout.split(" ")[0]
    if head != "ok":
        return "the logged history is not a run of the model: step %s not enabled (%s)" % (head, mout)
    res = {}
    for e in obs["log"]:
        if e["e"] == "D":
            res[e["i"]] = e["o"]
    pcs = f["pcs"]
    for i in range(n):
        want = res.get(i)
        if want is not None and pcs[i] != want:
            return "request %d: caller saw %s, model ends in %s" % (i, want, pcs[i])
        if want is None and not obs.get("stuck") and pcs[i] in "TOEP":
            return "request %d finished in the model but no result was logged" % i
    if int(f["maxrun"]) != obs["max_fl"]:
        return "max in flight observed %d, model %s" % (obs["max_fl"], f["maxrun"])
    if not obs.get("stuck"):
        if f["alldone"] != "true":
            return "script ended but model has unfinished requests: %s" % pcs
        if int(f["chan"]) != obs["cr_end"]:
            return "ConcurrentRequests() at quiescence %d, model channel %s" % (obs["cr_end"], f["chan"])
    else:
        return "the implementation stopped making progress: " + obs["stuck"]
    return None


def sem_oracle(case, obs):
    """The property text on the observed history.  -> (key, description) or None."""
    mx = case["max"]
    infl = 0
    hasS, fin, done = set(), {}, {}
    launched = set()
    at_stuck = None
    for pos, e in enumerate(obs["log"]):
        if obs.get("stuck") and pos == obs.get("stuck_at", -1):
            at_stuck = (infl, set(hasS), dict(done))
        i = e["i"]
        if e["e"] == "E":
            launched.add(i)
        elif e["e"] == "S":
            infl += 1
            hasS.add(i)
            if infl > mx:
                return ("sem:over-admission", "%d requests executing beyond the limiter, max %d (request %d got through)" % (infl, mx, i))
        elif e["e"] == "F":
            infl -= 1
            fin[i] = e["o"]
        elif e["e"] == "D":
            done[i] = e["o"]
            if e["o"] == "T" and i in hasS:
                return ("sem:timeout-ran", "request %d returned ErrTimeout although it had been let through" % i)
            if e["o"] == "T" and case["timeout_us"] == 0:
                return ("sem:timeout-unconfigured", "request %d returned ErrTimeout but no timeout is configured" % i)
            if e["o"] in "OEP" and fin.get(i) != e["o"]:
                return ("sem:result-mismatch", "request %d ended with %s downstream but its caller saw %s" % (i, fin.get(i), e["o"]))
            if e["o"] == "?":
                return ("sem:result-mismatch", "request %d: unclassifiable result %s" % (i, obs.get("msg")))
        if e["cr"] > mx:
            return ("sem:cr-exceeds-max", "ConcurrentRequests() = %d > max %d" % (e["cr"], mx))
        if e["cr"] < infl:
            return ("sem:run-without-permit", "%d requests executing but only %d permits taken" % (infl, e["cr"]))
    if obs["max_fl"] > mx:
        return ("sem:over-admission", "in-flight counter reached %d, max %d" % (obs["max_fl"], mx))
    if obs["max_prop"] != mx:
        return ("sem:max-prop", "MaxConcurrentRequests() = %d, configured %d" % (obs["max_prop"], mx))
    if obs.get("stuck"):
        op = case["ops"][obs["stuck_op"]] if 0 <= obs["stuck_op"] < len(case["ops"]) else {"op": "?"}
        if at_stuck is not None:       # the state when progress stopped, not after the clean-up
            infl, hasS, done = at_stuck
        pending = sorted(i for i in launched if i not in done and i not in hasS)
        if op["op"] in ("await_done", "await_any") and infl >= mx:
            return None          # every permit is in use and a waiter's timer never fires: the property text
                                 # does not promise that it does; left to the correspondence
        if infl < mx and pending:
            return ("sem:wedged", "limiter wedged: %d of %d permits in use by running requests, ConcurrentRequests()=%d, "
                    "yet waiting request(s) %s are not let through (%s)" % (infl, mx, obs["cr_end"], pending, obs["stuck"]))
        return ("sem:wedged", "limiter stopped making progress: " + obs["stuck"])
    if len(done) != len(launched):
        return ("sem:wedged", "callers %s never returned" % sorted(launched - set(done)))
    if obs["cr_end"] != 0:
        return ("sem:permit-leak", "all %d requests have ended but ConcurrentRequests() = %d: permits never returned"
                % (len(launched), obs["cr_end"]))
    return None


# ----------------------------------------------------------------------------- free: model side

def free_model_line(case, obs):
    """Quiescent observations -> schedule.  acq nil: enter, acquire.  acq timeout: enter, time-out.
    rel: end of the (empty) critical section, release.  inv ok: all four steps.  inv timeout: enter,
    time-out.  Returns the line and, per observation, the index of its last model step."""
    evs, last = [], []
    n = max([st["i"] for st in obs["steps"]] + [-1]) + 1
    for st in obs["steps"]:
        i = st["i"]
        if st["op"] == "acq":
            evs += ["E%d" % i, ("A%d" if st["err"] == "nil" else "T%d") % i]
        elif st["op"] == "rel":
            evs += ["Fo%d" % i, "R%d" % i]
        else:
            evs += ["E%d" % i] + (["A%d" % i, "Fo%d" % i, "R%d" % i] if st["err"] == "nil" else ["T%d" % i])
        last.append(len(evs) - 1)
    return "sem %d %d %d %s" % (case["max"], case["timeout_ns"], n, " ".join(evs)), last


def free_compare(case, obs, mout, last):
    if mout.startswith("MODEL-ERROR"):
        return "model runner failed: " + mout
    if obs.get("stuck"):
        return "the implementation stopped making progress: " + obs["stuck"]
    head = mout.split(" ")[0]
    f = dict(x.split("=", 1) for x in mout.split(" ")[1:])
    chans = [int(x) for x in f["chans"].split(",")] if f.get("chans") else []
    for k, st in enumerate(obs["steps"]):
        if st.get("err") == "other":
            return "step %d: unexpected error %s" % (k, st.get("msg"))
        if last[k] >= len(chans):
            return "the observed calls are not a run of the model: step %s not enabled (call %d: %s %s)" % (head, k, st["op"], st.get("err"))
        if st["cr"] >= 0 and chans[last[k]] != st["cr"]:
            return "after call %d (%s %s) ConcurrentRequests() = %d, model channel holds %d" % (
                k, st["op"], st.get("err", ""), st["cr"], chans[last[k]])
        if st["op"] == "inv" and st["reach"] != (1 if st["err"] == "nil" else 0):
            return "call %d: error %s but downstream ran %d times" % (k, st["err"], st["reach"])
    if head != "ok":
        return "the observed calls are not a run of the model: " + head
    if int(f["chan"]) != obs["cr_end"]:
        return "ConcurrentRequests() at the end %d, model channel %s" % (obs["cr_end"], f["chan"])
    if not obs["fresh_ok"]:
        return "no fresh request got in (%d tries), model channel %s of %d" % (obs["fresh_tries"], f["chan"], case["max"])
    return None


def free_oracle(case, obs):
    """Property text: nil => exactly one permit taken until Release; ErrTimeout => no permit taken and
    downstream not run; at the end nothing is held and a fresh request gets in."""
    cnt = 0
    for k, st in enumerate(obs["steps"]):
        before = cnt
        if st.get("err") == "timeout" and case["timeout_ns"] <= 0:
            return ("sem:timeout-unconfigured", "call %d returned ErrTimeout but the limiter has no timeout" % k)
        if st["op"] == "acq":
            if st["err"] == "nil":
                cnt += 1
            elif st["err"] != "timeout":
                return ("sem:error", "call %d: unexpected error %s" % (k, st.get("msg")))
        elif st["op"] == "rel":
            cnt -= 1
        else:
            if st["err"] == "nil" and st["reach"] != 1:
                return ("sem:result-mismatch", "invoke %d returned no error but the downstream handler ran %d times" % (k, st["reach"]))
            if st["err"] == "timeout" and st["reach"] != 0:
                return ("sem:timeout-ran", "invoke %d returned ErrTimeout although the downstream handler ran" % k)
            if st["err"] == "other":
                return ("sem:error", "invoke %d: unexpected error %s" % (k, st.get("msg")))
        if st["cr"] > case["max"]:
            return ("sem:cr-exceeds-max", "ConcurrentRequests() = %d > max %d" % (st["cr"], case["max"]))
        if st["cr"] >= 0 and st["cr"] != cnt:
            if st.get("err") == "timeout":
                return ("sem:timeout-kept-permit", "call %d (%s, mode %s) returned ErrTimeout but ConcurrentRequests() is %d where %d "
                        "permits are accounted for: the timed-out call took a permit that nobody will release"
                        % (k, st["op"], case["mode"], st["cr"], cnt))
            if st.get("err") == "nil" and st["op"] == "acq" and st["cr"] < cnt:
                return ("sem:nil-without-permit", "call %d (mode %s, limiter %s) returned nil from Acquire but holds no permit: "
                        "ConcurrentRequests() is %d (max %d) where %d callers were told to go on"
                        % (k, case["mode"], "without timeout" if case["timeout_ns"] <= 0 else "with timeout", st["cr"], case["max"], cnt))
            return ("sem:permit-count", "after call %d (%s %s) ConcurrentRequests() is %d, %d permits are accounted for"
                    % (k, st["op"], st.get("err", ""), st["cr"], cnt))
    if obs.get("stuck"):
        return ("sem:wedged", "limiter stopped making progress: " + obs["stuck"])
    if obs["cr_end"] != 0:
        return ("sem:permit-leak", "all calls have ended and every permit that was handed out was released, "
                "but ConcurrentRequests() = %d" % obs["cr_end"])
    if not obs["fresh_ok"]:
        return ("sem:wedged", "a fresh request did not get in in %d tries although nothing is held" % obs["fresh_tries"])
    return None


# ----------------------------------------------------------------------------- rate: model side

def parse_rate_out(tok):
    v, nx = tok.split(":")
    if v == "R":
        return "R", 0, int(nx)
    return "G", int(v[1:]), int(nx)


def mp(case):
    return "inf" if case["burst"] < 0 else str(case["burst"])


def rate_model_line(case, obs):
    parts = model_head(case) + [mp(case), str(case["timeout_ns"])]
    for call, co in zip(case["calls"], obs["calls"]):
        parts += [str(co["last"]), str(co["b"]), str(call["tokens"]), str(co["last"]), str(co["a"]), str(call["tokens"])]
    return " ".join(parts)


ERR2V = {"nil": "G", "timeout": "R"}


def rate_compare(case, obs, mout, st):
    """-> None or disagreement text.  st: counters dict."""
    if mout.startswith("MODEL-ERROR"):
        return "model runner failed: " + mout
    toks = mout.split(" ") if mout else []
    tol = 0 if case["pow2"] else (2 if case.get("nondiv") else 1)
    if not obs["next_ok"]:
        return "cannot read RateLimiter.next"
    want = SEC / case["pps"]            # interval * rate = one second; float64 division is exact to 1e-16
    if abs(obs["interval"] - want) > 1e-12 * want:
        return "interval field %r ns per permit, but 1e9 / %d = %r (interval * rate must be one second)" % (
            obs["interval"], case["pps"], want)
    if not (obs["t0b"] <= obs["next0"] <= obs["t0a"]):
        return "initial next %d outside the window of the constructor [%d,%d]" % (obs["next0"], obs["t0b"], obs["t0a"])
    prev = obs["next0"]
    for k, (call, co) in enumerate(zip(case["calls"], obs["calls"])):
        if co["last"] != prev:
            return "call %d: l.next changed between calls (%d -> %d)" % (k, prev, co["last"])
        prev = co["next"]
        vb, wb, nb = parse_rate_out(toks[2 * k])
        va, wa, na = parse_rate_out(toks[2 * k + 1])
        seen = ERR2V.get(co["err"], "?")
        if seen == "?":
            return "call %d: unexpected error %s" % (k, co.get("msg"))
        if vb != va:
            st["inconclusive"] += 1
        elif seen != vb:
            return "call %d: implementation %s, model %s at both ends of the clock window (last-now in [%d,%d], timeout %d)" % (
                k, co["err"], vb, co["last"] - co["a"], co["last"] - co["b"], case["timeout_ns"])
        if not (nb - tol <= co["next"] <= na + tol):
            return "call %d: stored next %d outside the model's range [%d,%d] (tokens %d, last %d)" % (
                k, co["next"], nb, na, call["tokens"], co["last"])
        if co["next"] < nb or co["next"] > na:
            st["rounded"] += 1
        if seen == "G" and not case["cancelled"] and co["a"] < co["last"]:
            return "call %d: returned %d ns before the required wait was over" % (k, co["last"] - co["a"])
    return None


def rate_underdebit(case, obs):
    I = ival(case)
    # every call of t tokens pushes the next free time by t permits' worth, at 1e9/rate ns per permit
    # (int64 truncation: less than 1 ns; float64 rounding: 1e-9 relative is generous)
    for k, (call, co) in enumerate(zip(case["calls"], obs["calls"])):
        owed = call["tokens"] * I
        if co["next"] - co["last"] < owed * (1 - Fraction(1, 10**9)) - 2:
            got = co["next"] - co["last"]
            return ("rate:under-debit", "call %d of %d tokens at %d permits/s pushed the next free time by %d ns; %d tokens are worth %s ns "
                    "(interval %s ns): sustained, %.4g times the configured rate is let through"
                    % (k, call["tokens"], case["pps"], got, call["tokens"], float(owed), float(I), float(owed) / max(got, 1)))
    return None


def rate_oracle(case, obs):
    """Property text on the observed calls.  -> (key, text) or None."""
    I, M, T = ival(case), case["burst"], case["timeout_ns"]
    granted = []
    for k, (call, co) in enumerate(zip(case["calls"], obs["calls"])):
        if co["err"] == "timeout":
            need_max = co["last"] - co["b"]            # the clock inside Acquire is read after b
            if T <= 0:
                return ("rate:spurious-timeout", "call %d rejected with ErrTimeout but no timeout is configured" % k)
            if need_max <= T:
                return ("rate:spurious-timeout", "call %d rejected with ErrTimeout although the wait it needed (at most %d ns) "
                        "does not exceed the timeout %d ns" % (k, need_max, T))
        elif co["err"] == "nil":
            granted.append((k, co["b"], co["a"], call["tokens"], co["last"]))
        else:
            return ("rate:error", "call %d: unexpected error %s" % (k, co.get("msg")))
    if case["cancelled"]:
        return rate_underdebit(case, obs)   # the caller's own context ended the waits: admission times say nothing
    for (k, b, a, t, last) in granted:
        if a < last:
            return ("rate:early-return", "call %d was let through %d ns before the bucket was free again" % (k, last - a))
    # permits over any interval <= burst + rate * elapsed, on the observed admission times
    # (a_j - b_i over-estimates the elapsed time between the two admissions: one-sided)
    pre = [0]
    for g in granted:
        pre.append(pre[-1] + g[3])
    for x in range(len(granted)):
        for y in range(x + 1, len(granted)):
            mid = pre[y] - pre[x + 1]
            if M >= 0:
                # most elapsed time the two admissions can be apart (clock window), float rounding 1e-9, and less
                # than one nanosecond of truncation per call
                if mid * I > ((granted[y][2] - granted[x][1]) + M * I) * (1 + Fraction(1, 10**9)) + (y - x):
                    return ("rate:over-admission", "%d tokens let through strictly between calls %d and %d, which are at most %d ns apart: "
                            "more than burst %d + elapsed/interval (interval %s ns)" % (mid, granted[x][0], granted[y][0],
                                                                                     granted[y][2] - granted[x][1], M, float(I)))
    for y in range(len(granted)):
        if pre[y] * I > (granted[y][2] - obs["t0b"]) * (1 + Fraction(1, 10**9)) + y:
            return ("rate:over-admission", "%d tokens let through before call %d, only %d ns after the limiter was created (interval %s ns)"
                    % (pre[y], granted[y][0], granted[y][2] - obs["t0b"], float(I)))
    return rate_underdebit(case, obs)


# ---------------------------------------------------------------------------- plug: model side

def plug_reqlen(obs):
    ls = [co["len"] for co in obs["calls"] if co["reach"] == 1]
    return ls[0] if ls else None


def plug_lines(case, obs, first=None):
    """first=None: the InvokeHandler's Acquire(1).  Otherwise: the IOHandler's Acquire(len) from the model's state."""
    parts = model_head(case) + [mp(case), str(case["timeout_ns"])]
    L = plug_reqlen(obs)
    for k, co in enumerate(obs["calls"]):
        if first is None:
            parts += [str(co["last"]), str(co["b"]), "1", str(co["last"]), str(co["a"]), "1"]
        else:
            (vb, wb, nb), (va, wa, na) = first[k]
            parts += [str(nb), str(co["b"]), str(L or 0), str(na), str(co["a"]), str(L or 0)]
    return " ".join(parts)


def plug_compare(case, obs, m1, m2, st):
    tol = 0 if case["pow2"] else (4 if case.get("nondiv") else 2)
    L = plug_reqlen(obs)
    want = SEC / case["pps"]
    if abs(obs["interval"] - want) > 1e-12 * want:
        return "interval field %r ns per permit, but 1e9 / %d = %r" % (obs["interval"], case["pps"], want)
    prev = obs["next0"]
    for k, co in enumerate(obs["calls"]):
        if co["last"] != prev:
            return "call %d: l.next changed between calls" % k
        prev = co["next"]
        (v1b, _, n1b), (v1a, _, n1a) = m1[k]
        (v2b, _, n2b), (v2a, _, n2a) = m2[k]
        seen = ERR2V.get(co["err"], "?")
        if seen == "?" or co.get("msg"):
            return "call %d: unexpected result %s" % (k, co.get("msg"))
        lo = n2b if v1b == "G" else n1b
        hi = n2a if v1a == "G" else n1a
        mb = "G" if (v1b == "G" and v2b == "G") else "R"
        ma = "G" if (v1a == "G" and v2a == "G") else "R"
        if mb != ma or v1b != v1a:
            st["inconclusive"] += 1
            continue
        if L is None and mb == "G":
            return "call %d: model lets the call through, scripted handler never reached" % k
        if seen != mb:
            return "call %d: implementation %s, model %s" % (k, co["err"], mb)
        if (co["reach"] == 1) != (seen == "G"):
            return "call %d: error %s but downstream reached %d times" % (k, co["err"], co["reach"])
        if not (lo - tol <= co["next"] <= hi + tol):
            return "call %d: stored next %d outside the model's range [%d,%d]" % (k, co["next"], lo, hi)
    return None


def plug_oracle(case, obs):
    I = ival(case)
    for k, co in enumerate(obs["calls"]):
        if co["err"] == "nil" and co["reach"] == 1:
            owed = (1 + co["len"]) * I        # InvokeHandler charges 1, IOHandler len(request)
            got = co["next"] - co["last"]
            if got < owed * (1 - Fraction(1, 10**9)) - 4:
                return ("rate:under-debit", "invoke %d (request of %d bytes) at %d permits/s pushed the next free time by %d ns; "
                        "1 + %d tokens are worth %s ns (interval %s ns): sustained, %.4g times the configured rate is let through"
                        % (k, co["len"], case["pps"], got, co["len"], float(owed), float(I), float(owed) / max(got, 1)))
        if co["err"] == "nil" and co["reach"] != 1:
            return ("rate:plug-next", "invoke %d returned no error but the downstream handler ran %d times" % (k, co["reach"]))
        if co["err"] == "timeout":
            if co["reach"] != 0:
                return ("rate:plug-next", "invoke %d rejected with ErrTimeout but the downstream handler ran" % k)
            if case["timeout_ns"] <= 0:
                return ("rate:spurious-timeout", "invoke %d rejected with ErrTimeout but no timeout is configured" % k)
            L = plug_reqlen(obs) or 0
            # the second Acquire sees next = last + 1*interval at most (rounded up by one)
            need_max = co["last"] + int(ival(case)) + 2 - co["b"]
            if need_max <= case["timeout_ns"]:
                return ("rate:spurious-timeout", "invoke %d rejected although the wait needed (at most %d ns) does not exceed the timeout %d"
                        % (k, need_max, case["timeout_ns"]))
        if co["err"] == "other":
            return ("rate:error", "invoke %d: unexpected error %s" % (k, co.get("msg")))
    return None


# ---------------------------------------------------------------------------- conc: model side

def conc_model_lines(case, obs):
    """Two schedules: clock readings at the lower end (time stamp before the call, made monotone) and
    at the upper end (time stamp taken at the yield point) of what time.Now() inside Acquire can be."""
    bstamp = {}
    for c in obs["calls"]:
        bstamp[(c["t"], c["r"])] = c["b"]
    rnd = {}
    lo_labs, hi_labs = [], []
    clock = obs["next0"]
    for ev in obs["order"]:
        t = ev["t"]
        if ev["e"] == "L":
            r = rnd.get(t, 0)
            rnd[t] = r + 1
            b = bstamp.get((t, r), ev["y"])
            clock = max(clock, b)
            lo_labs.append("L%d:%d:%d" % (t, clock, case["tokens"]))
            hi_labs.append("L%d:%d:%d" % (t, ev["y"], case["tokens"]))
        else:
            lo_labs.append("S%d" % t)
            hi_labs.append("S%d" % t)
    head = "conc %d %s %d %d %d " % (case["interval"], mp(case), case["timeout_ns"], obs["next0"], case["threads"])
    return head + " ".join(lo_labs), head + " ".join(hi_labs)


def conc_parse(mout):
    if not mout.startswith("ok"):
        return None
    f = dict(x.split("=", 1) for x in mout.split(" ")[1:])
    log = [x.split(":") for x in f["log"].split(",")] if f.get("log") else []
    return {"next": int(f["next"]), "verdicts": [x[4][0] for x in log], "tokens": int(f["tokens"])}


def conc_compare(case, obs, mlo, mhi):
    if obs.get("stuck"):
        return "forced schedule did not complete: " + obs["stuck"]
    a, b = conc_parse(mlo), conc_parse(mhi)
    if a is None or b is None:
        return "the forced schedule is not a run of the model (%s / %s)" % (mlo[:40], mhi[:40])
    tol = len(obs["calls"])      # every store may be off by one nanosecond (float rounding), and they chain
    if not (min(a["next"], b["next"]) - tol <= obs["next_end"] <= max(a["next"], b["next"]) + tol):
        return "final l.next %d, model [%d,%d]" % (obs["next_end"], a["next"], b["next"])
    if any(c["err"] != "nil" for c in obs["calls"]) and a["verdicts"] == b["verdicts"] and "R" not in a["verdicts"]:
        return "a caller was rejected, the model lets every caller through"
    return None


def conc_oracle(case, obs):
    if obs.get("stuck"):
        return None
    I, M = case["interval"], case["burst"]
    g = sorted([(c["a"], c["b"]) for c in obs["calls"] if c["err"] == "nil"])
    n = len(g)
    # n calls of 1 token each let through; tokens strictly between the first and the last: n-2
    if n >= 3:
        elapsed = g[-1][0] - min(x[1] for x in g)
        mid = (n - 2) * case["tokens"]
        if mid * I > elapsed + M * I:
            return ("rate:lost-update", "%d concurrent callers x %d rounds, load/store pairs interleaved: %d tokens let through strictly "
                    "between two calls only %d ns apart; burst %d + elapsed/interval allows %d (interval %d ns). "
                    "l.next advanced by %d ns for %d tokens (%d ns owed)"
                    % (case["threads"], case["rounds"], mid, elapsed, M, M + elapsed // I, I,
                       obs["next_end"] - obs["next0"], n * case["tokens"], n * case["tokens"] * I))
    return None


# ------------------------------------------------------------------------------------ driver

def hook_present():
    p = os.path.join(hv.REPO, "rpc", "plugins", "limiter", "verif_on.go")
    try:
        return "VerifYieldHook" in open(p).read()
    except OSError:
        return False


def build_hooked():
    """hv.build_harness builds with -tags verif only; the hooked executor needs one more tag."""
    hd = os.path.join(hv.V, "harness")
    out = os.path.join(hv.HBIN, "hv-c17hook")
    with hv.Lock("go" + hv.ALT):
        cmd = ["go", "build", "-tags", "verif c17hook", "-o", out]
        cmd[2:2] = hv.cover_flags()
        if hv.ALT:
            cmd.append("-modfile=" + os.path.join(hv.BUILD, "alt-" + hv.ALT, "go.mod"))
        rc, o, e = hv.sh(cmd + ["./cmd/c17"], cwd=hd, env=hv.GOENV, timeout=1800)
        if rc != 0:
            raise hv.EnvError("hooked harness c17 does not build: " + e[-3000:])
    return out


def short(case):
    c = dict(case)
    return c


def evaluate(ctx, cases, byid, hook):
    """Compare every observation with the model, run the oracle on every observation."""
    st = {"inconclusive": 0, "rounded": 0}
    disagreements = []          # (case, obs, text)
    oracle_hits = []            # (case, obs, key, text)
    agree = 0
    # ---- model runs, batched
    sem = [(c, byid[c["id"]]) for c in cases if c["kind"] == "sem" and not byid[c["id"]].get("skipped")]
    sem_lines = [sem_model_line(c, o) for c, o in sem]
    sem_out = hv.run_model("c17", [l for l, _ in sem_lines]) if sem else []
    free = [(c, byid[c["id"]]) for c in cases if c["kind"] == "free"]
    free_lines = [free_model_line(c, o) for c, o in free]
    free_out = hv.run_model("c17", [l for l, _ in free_lines]) if free else []
    rate = [(c, byid[c["id"]]) for c in cases if c["kind"] == "rate"]
    rate_out = hv.run_model("c17", [rate_model_line(c, o) for c, o in rate]) if rate else []
    plug = [(c, byid[c["id"]]) for c in cases if c["kind"] == "plug"]
    plug1 = hv.run_model("c17", [plug_lines(c, o) for c, o in plug]) if plug else []
    plug1p = []
    for out in plug1:
        toks = out.split(" ") if out else []
        plug1p.append([(parse_rate_out(toks[2 * k]), parse_rate_out(toks[2 * k + 1])) for k in range(len(toks) // 2)])
    plug2 = hv.run_model("c17", [plug_lines(c, o, p) for (c, o), p in zip(plug, plug1p)]) if plug else []
    conc = [(c, byid[c["id"]]) for c in cases if c["kind"] == "conc" and not byid[c["id"]].get("unsupported")]
    conc_lines = [conc_model_lines(c, o) for c, o in conc]
    conc_out = hv.run_model("c17", [x for pair in conc_lines for x in pair]) if conc else []

    for (c, o), (line, n), mout in zip(sem, sem_lines, sem_out):
        nontrivial = any(op["op"] == "start" and op.get("expect") == "block" for op in c["ops"])
        ctx.count_case("sem|%d|%d|%s" % (c["max"], c["timeout_us"], json.dumps(c["ops"], sort_keys=True)), nontrivial)
        ctx.bump("sem_family", c["fam"])
        ctx.bump("sem_events", None, len(o["log"]))
        for e in o["log"]:
            if e["e"] == "D":
                ctx.bump("sem_results", e["o"])
        d = sem_compare(c, o, mout, n)
        if d:
            disagreements.append((c, o, d))
        else:
            agree += 1
            if nontrivial and len(ctx.cov["samples"]) < 2:
                ctx.sample({"case": {k: c[k] for k in ("kind", "max", "timeout_us", "ops")},
                            "log": "".join("%s%d%s " % (e["e"], e["i"], e.get("o", "")) for e in o["log"]), "model": mout})
        w = sem_oracle(c, o)
        if w:
            oracle_hits.append((c, o, w[0], w[1]))
    ctx.note("sem_skipped_after_stuck", sum(1 for c in cases if c["kind"] == "sem" and byid[c["id"]].get("skipped")))

    for (c, o), (line, last), mout in zip(free, free_lines, free_out):
        outs = set(fs["err"] for fs in o["steps"] if fs["op"] in ("acq", "inv"))
        ctx.count_case("free|%d|%s|%s|%d|%d" % (c["max"], c["mode"], c["via"], c["n"], c["hold"]), len(outs) > 1)
        ctx.bump("free_mode", c["mode"] + "/" + c["via"])
        for fs in o["steps"]:
            if fs["op"] in ("acq", "inv"):
                ctx.bump("free_race_outcomes", c["mode"] + ":" + fs["err"])
        d = free_compare(c, o, mout, last)
        if d:
            disagreements.append((c, o, d))
        else:
            agree += 1
        w = free_oracle(c, o)
        if w:
            oracle_hits.append((c, o, w[0], w[1]))

    for (c, o), mout in zip(rate, rate_out):
        waits = sum(1 for co in o["calls"] if co["err"] == "nil" and co["last"] > co["b"])
        rej = sum(1 for co in o["calls"] if co["err"] == "timeout")
        ctx.count_case("rate|%d|%d|%d|%s|%s" % (c["pps"], c["burst"], c["timeout_ns"], c["cancelled"], json.dumps(c["calls"])),
                       waits + rej > 0)
        ctx.bump("rate_calls", None, len(o["calls"]))
        ctx.bump("rate_waits", None, waits)
        ctx.bump("rate_rejections", None, rej)
        ctx.bump("rate_family", "pow2-exact" if c["pow2"] else ("non-dividing-rational" if c.get("nondiv") else "decimal-rounded"))
        if c.get("nondiv"):
            ctx.bump("rate_nondividing_pps", str(c["pps"]))
        ctx.bump("rate_mode", "cancelled-context" if c["cancelled"] else "real-waits")
        d = rate_compare(c, o, mout, st)
        if d:
            disagreements.append((c, o, d))
        else:
            agree += 1
            if rej and waits and len(ctx.cov["samples"]) < 4:
                ctx.sample({"case": {k: c[k] for k in ("kind", "pps", "burst", "timeout_ns", "cancelled")},
                            "calls": [(call["tokens"], co["err"], co["a"] - co["b"]) for call, co in zip(c["calls"], o["calls"])][:10]})
        w = rate_oracle(c, o)
        if w:
            oracle_hits.append((c, o, w[0], w[1]))

    for (c, o), p1, out2 in zip(plug, plug1p, plug2):
        toks = out2.split(" ") if out2 else []
        p2 = [(parse_rate_out(toks[2 * k]), parse_rate_out(toks[2 * k + 1])) for k in range(len(toks) // 2)]
        rej = sum(1 for co in o["calls"] if co["err"] == "timeout")
        ctx.count_case("plug|%d|%d|%d|%s|%d" % (c["pps"], c["burst"], c["timeout_ns"], c["cancelled"], len(c["calls"])), rej > 0)
        ctx.bump("plug_invokes", None, len(o["calls"]))
        ctx.bump("plug_rejections", None, rej)
        d = plug_compare(c, o, p1, p2, st)
        if d:
            disagreements.append((c, o, d))
        else:
            agree += 1
        w = plug_oracle(c, o)
        if w:
            oracle_hits.append((c, o, w[0], w[1]))

    for k, (c, o) in enumerate(conc):
        mlo, mhi = conc_out[2 * k], conc_out[2 * k + 1]
        ctx.count_case("conc|%d|%d|%d|%d|%s" % (c["pps"], c["burst"], c["threads"], c["rounds"], c["pattern"]), True)
        ctx.bump("conc_pattern", c["pattern"])
        d = conc_compare(c, o, mlo, mhi)
        if d:
            disagreements.append((c, o, d))
        else:
            agree += 1
        w = conc_oracle(c, o)
        if w:
            oracle_hits.append((c, o, w[0], w[1]))
            ctx.bump("conc_over_admission_observed")
        elif c["pattern"] == "interleave":
            ctx.bump("conc_interleaved_without_observed_over_admission")
    ctx.note("inconclusive_timing_calls", st["inconclusive"])
    ctx.note("calls_with_float_rounding_of_1ns", st["rounded"])
    ctx.note("traces_validated_against_impl", agree)
    return disagreements, oracle_hits


def run(ctx):
    ctx.level = "proof"
    ctx.assumptions += [
        "one channel operation / one atomic.Load / one atomic.Store is one atomic step (sequential consistency); "
        "select with several ready branches chooses any; timers and context cancellation are environment events",
        "float abstraction of the rate limiter: the model computes permits*interval exactly over Z with an integer interval; "
        "cases with a power-of-two interval are compared exactly (the Go float computation is exact there), the others "
        "within 1 ns per call (rounding of the quotient followed by int64 truncation)",
        "time.Now() inside Acquire lies between the harness's readings before and after the call; a call whose verdict "
        "differs between the two ends of that window is counted as inconclusive",
        "l.next is read by reflection (read-only) before and after each sequential call",
        "the deferred release of the concurrent limiter is not observable by itself: in the replay it is placed right after "
        "the logged end of next (the most permissive placement)",
    ]
    ctx.prove()
    hv.build_harness("c17")
    hv.build_modelrun("c17")
    hook = hook_present()
    exe = "c17"
    if hook:
        build_hooked()
        exe = "c17hook"
    ctx.note("yield_hook_in_tree", hook)
    if not hook:
        ctx.note("conc_note", "the tree under test has no yield hook in rpc/plugins/limiter: the witness schedule of "
                 "C17_rate_concurrent_refuted is proved for the model but not replayed on the implementation "
                 "(apply hooks/c17-limiter.patch to enable)")
    cases = gen_cases(ctx, hook)
    rc, obs, err = hv.run_harness(exe, cases, timeout=2400)
    byid = {o["id"]: o for o in obs}
    if rc != 0 or len(byid) != len(cases):
        done = set(byid)
        first = next((c for c in cases if c["id"] not in done), None)
        ctx.report("harness-crash", "harness process died (rc=%d) while running %s: %s" % (rc, json.dumps(first)[:300], err[-400:]),
                   {"case": first, "stderr": err[-2000:], "failing_input": True})
        cases = [c for c in cases if c["id"] in done]
    disagreements, oracle_hits = evaluate(ctx, cases, byid, hook)
    ctx.note("rule", "seeded random cases. sem: scripts over max in {1..8} x timeout {none,20..30ms} with blocked waiters, waiters that must "
             "time out while all permits are held, releases racing with timers, ends by response/error/panic; non-trivial = at least one "
             "request had to wait; family nocancel = limiter without timeout, full, callers queued with contexts already cancelled / "
             "cancelled while queued / expiring while queued. free: 100..500 calls of Acquire/Release or Invoke whose time-out (1ns) or cancellation (before, during, "
             "or together with a release to a blocked caller) races with a send that can succeed; permit count checked after every call; "
             "non-trivial = both outcomes of the race occurred. rate/plug: 6..24 sequential calls, power-of-two and decimal intervals and rates that do not divide 1e9 "
             "(3/s .. 999,000,000/s, rational model) with multi-token calls up to millions of tokens and requests up to 40 kB through the IOHandler, maxPermits {Inf,0..}, timeouts, idle "
             "gaps, real waits or cancelled context; non-trivial = at least one call waited or was rejected. conc (with hook): forced "
             "interleaved / atomic load-store schedules. distinct by full case text")
    ctx.note("exhaustive", False)
    ctx.note("disagreeing_cases", len(disagreements))
    def severity(hit):      # among the failing cases of one kind, report the plainest one
        t = hit[3]
        try:
            return -float(t.split("sustained, ")[1].split(" times")[0])
        except Exception:
            return 0.0
    oracle_hits.sort(key=severity)       # stable: the order of the others is kept
    seen_keys = set()
    for c, o, key, text in oracle_hits:
        if key in seen_keys:
            continue
        seen_keys.add(key)
        ctx.report(key, text, {"case": c, "observation": o, "failing_input": True,
                               "coq_witness": "C17_rate_concurrent_refuted" if key == "rate:lost-update" else None})
    if disagreements and not oracle_hits:
        c, o, d = disagreements[0]
        ctx.report("correspondence:" + c["kind"], "Model/%s no longer matches the plugin (theorems C17_* not transferred): %s"
                   % ("Sem.v" if c["kind"] in ("sem", "free") else "Rate.v", d),
                   {"case": c, "observation": o, "failing_input": False, "disagreement": d,
                    "correspondence": {"sem": "Sem.run vs ConcurrentLimiter.Handler", "free": "Sem.run vs ConcurrentLimiter.Acquire/Release/Handler", "rate": "Rate.acquire vs RateLimiter.Acquire",
                                       "plug": "Rate.acquire x2 vs RateLimiter.InvokeHandler/IOHandler",
                                       "conc": "Rate.rrun vs RateLimiter.Acquire under a forced schedule"}[c["kind"]],
                    "disagreeing_cases": len(disagreements)})
    elif disagreements:
        ctx.note("first_disagreement", disagreements[0][2])


def replay(ctx, path):
    r = json.load(open(path))
    case = r["case"]
    hv.build_harness("c17")
    exe = "c17"
    if case["kind"] == "conc":
        if not hook_present():
            print("the tree under test has no yield hook; apply hooks/c17-limiter.patch")
            return 3
        build_hooked()
        exe = "c17hook"
    rc, obs, err = hv.run_harness(exe, [case])
    print(json.dumps(obs)[:4000])
    if not obs:
        print("harness crashed:", err[-500:])
        return 1
    o = obs[0]
    why = {"sem": sem_oracle, "free": free_oracle, "rate": rate_oracle, "plug": plug_oracle, "conc": conc_oracle}[case["kind"]](case, o)
    print("property oracle:", why)
    return 1 if why else 0
