"""C12 transport framing: proof (Props/C12.v over Lib/Crc32.v + Model/Frame.v) + correspondence of
the extracted model with the real transports (rpc/socket, rpc/udp, rpc/websocket, rpc/http,
rpc/http/fasthttp) driven on loopback: real Client.Request against a real core.Service with a
recording IO handler (both directions, boundary lengths, arbitrary content, wire bytes captured
through a relay and compared with the model's headers), raw sockets speaking frames built by the
model (every single-bit header corruption, every declared/actual length relation, cut streams,
concatenated and dribbled frames, header look-alike payloads), and fake servers answering a real
client with scripted bytes (response direction).  Every case is compared with the model's
prediction AND judged by an oracle written from the property text (delivered == submitted, or
nothing delivered)."""
import hashlib
import json
import os
import subprocess
import zlib

import hv

MAXREQ = 16 << 20
HEALTH = b"\x00hvHEALTH-"
RNZ = b"Rnz"  # what Service.Handle substitutes for an empty response (hprose: result null end)
TOO_LARGE = b"Request entity too large"

KNOWN_SHAPES = {
    # (family, kind) -> key of a defect of the unchanged tree; only used when the observed
    # behaviour is exactly what the faithful model predicts and the property oracle rejects it
    ("raw_udp", "decl_gt"): "udp-server-body-from-stale-buffer",
    ("raw_udp", "decl_lt"): "udp-server-declared-less-truncates",
    ("fake_udp", "decl_gt"): "udp-client-body-zero-padded",
    ("fake_udp", "decl_lt"): "udp-client-declared-less-truncates",
    ("raw_http", "decl_gt"): "http-server-short-body-zero-padded",
}
KNOWN_WHAT = {
    "udp-server-body-from-stale-buffer":
        "rpc/udp/handler.go receive: body := make([]byte, length); copy(body, buffer[8:]) ignores n — a datagram "
        "declaring more than it carries is completed with bytes of an earlier datagram (another client's) "
        "from the reused receive buffer and handed to the service",
    "udp-server-declared-less-truncates":
        "rpc/udp/handler.go receive: a datagram declaring fewer bytes than it carries is handed to the service "
        "truncated to the declared length instead of being rejected",
    "udp-client-body-zero-padded":
        "rpc/udp/transport.go conn.receive: a response datagram declaring more than it carries is returned to "
        "the caller padded with zero bytes (n is ignored; the buffer is fresh per receive, so zeros not stale bytes)",
    "udp-client-declared-less-truncates":
        "rpc/udp/transport.go conn.receive: a response datagram declaring fewer bytes than it carries is "
        "returned to the caller truncated",
    "http-server-short-body-zero-padded":
        "rpc/http/handler.go ServeHTTP: the error of readAll is reported and ignored — a request whose body ends "
        "before Content-Length bytes is handed to the service padded with zero bytes",
}


def hx(b):
    return b.hex() if b else "-"


def dresp(req):
    """the recording handler's default answer (kept within what one UDP datagram can carry)"""
    return (b"r:" + req)[:65499]


def unhx(s):
    return b"" if s in ("", "-", None) else bytes.fromhex(s)


def enc(b):
    """what the executor prints for a byte string"""
    if len(b) == 0:
        return "-"
    if len(b) <= 4096:
        return b.hex()
    return "sha1:%s:%d" % (hashlib.sha1(b).hexdigest(), len(b))


def short(b, n=24):
    return (b[:n].hex() + ("..(%d bytes)" % len(b) if len(b) > n else "")) if b else "(empty)"


class Model:
    """the extracted Coq model as a line server (build/bin/modelrun-c12)"""

    def __init__(self):
        def big_stack():
            # the extracted model recurses over unary nat lengths and byte lists: 1 MiB bodies need
            # more than the default 8 MB of stack
            import resource
            try:
                resource.setrlimit(resource.RLIMIT_STACK, (resource.RLIM_INFINITY, resource.RLIM_INFINITY))
            except Exception:
                try:
                    hard = resource.getrlimit(resource.RLIMIT_STACK)[1]
                    resource.setrlimit(resource.RLIMIT_STACK, (hard, hard))
                except Exception:
                    pass
        self.p = subprocess.Popen([os.path.join(hv.BIN, "modelrun-c12")], stdin=subprocess.PIPE,
                                  stdout=subprocess.PIPE, text=True, bufsize=1, preexec_fn=big_stack)
        self.n = 0
        self.memo = {}

    def q(self, line):
        if line in self.memo:
            return self.memo[line]
        self.p.stdin.write(line + "\n")
        self.p.stdin.flush()
        out = self.p.stdout.readline()
        if not out:
            raise hv.EnvError("modelrun-c12 died on: " + line[:200])
        out = out.rstrip("\n")
        if out.startswith("MODEL-ERROR"):
            raise hv.EnvError("modelrun-c12: %s on %s" % (out, line[:200]))
        self.n += 1
        if len(line) < 200:
            self.memo[line] = out
        return out

    def close(self):
        try:
            self.p.stdin.close()
            self.p.wait(timeout=5)
        except Exception:
            self.p.kill()

    # headers
    def smake(self, length, idx):
        return unhx(self.q("smake %d %d" % (length, idx)))

    def umake(self, length, idx):
        return unhx(self.q("umake %d %d" % (length, idx)))

    def wmake(self, idx):
        return unhx(self.q("wmake %d" % idx))

    def flip(self, k, b):
        return unhx(self.q("flip %d %s" % (k, hx(b))))

    def srecv(self, side, stream):
        out = self.q("srecv %s %s" % (side, hx(stream)))
        ds, end = out.rsplit("|", 1)
        frames = []
        if ds:
            for f in ds.split(","):
                i, b = f.split(":")
                frames.append((int(i), unhx(b)))
        return frames, end

    @staticmethod
    def _res(tok):
        p = tok.split(":")
        if p[0] == "D":
            if len(p) == 2:
                return ("D", None, unhx(p[1]))
            return ("D", int(p[1]), unhx(p[2]))
        if p[0] == "E":
            return ("E", None, unhx(p[1]))
        if p[0] == "toolarge":
            return ("toolarge", int(p[1]) if len(p) > 1 else None, b"")
        return (p[0], None, b"")

    def urun(self, side, dgrams, fixed=False):
        out = self.q("%s %s %s" % ("ufixed" if fixed else "urun", side, " ".join(hx(d) for d in dgrams)))
        return [self._res(t) for t in out.split(" ")] if dgrams else []

    def wrecv(self, side, msg):
        return self._res(self.q("wrecv %s %s" % (side, hx(msg))))

    def hrecv(self, side, declared, actual, fixed=False):
        return self._res(self.q("%s %s %d %s" % ("hlim" if fixed else "hrecv", side, declared, hx(actual))))


S = "S%d" % MAXREQ


# ------------------------------------------------------------------------------ generation

class Gen:
    def __init__(self, ctx, m, repaired=()):
        # repaired: receive sites that a two-case probe found to follow the repaired model; only
        # used to tell the executor how many deliveries to wait for (never for a verdict)
        self.repaired = set(repaired)
        self.ctx, self.m, self.rng = ctx, m, ctx.rng
        self.quick = ctx.tier == "quick"
        self.cases = []
        self.nbar = 0
        self.pool = False       # while set, every case added runs against servers with a worker pool

    def add(self, c):
        if self.pool:
            c["pool"] = True
            c["kind"] += "+pool"
        c["id"] = len(self.cases) + 1
        self.cases.append(c)
        return c

    def rand(self, n):
        return self.rng.randbytes(n) if n else b""

    def content(self, n, kind):
        """n bytes of the given flavour; 'hdr*' flavours start with bytes that look like headers"""
        r = self.rng
        if kind == "rand":
            return self.rand(n)
        if kind == "zero":
            return b"\x00" * n
        if kind == "ff":
            return b"\xff" * n
        if kind == "hdr_sock":   # a VALID socket header (declaring something else), then a frame, then noise
            inner = self.rand(r.choice([0, 1, 5]))
            pre = self.m.smake(r.choice([0, 3, 1 << 20]), r.choice([1, 2, 0x7fffffff])) + \
                self.m.smake(len(inner), 2) + inner
            return (pre + self.rand(max(0, n - len(pre))))[:n]
        if kind == "hdr_udp":
            pre = self.m.umake(r.choice([0, 9, 65499]), r.choice([1, 2, 0x7fff])) * 3
            return (pre + self.rand(max(0, n - len(pre))))[:n]
        if kind == "hdr_http":
            pre = b"POST / HTTP/1.1\r\nContent-Length: 5\r\n\r\nhelloHTTP/1.1 200 OK\r\nContent-Length: 0\r\n\r\n0\r\n\r\n"
            return (pre + self.rand(max(0, n - len(pre))))[:n]
        if kind == "hdr_ws":    # websocket close / ping frame bytes and an index prefix
            pre = b"\x88\x02\x03\xe8\x89\x00\x00\x00\x00\x01\x80\x00\x00\x01"
            return (pre + self.rand(max(0, n - len(pre))))[:n]
        raise ValueError(kind)

    KINDS = ["rand", "hdr_sock", "zero", "hdr_udp", "ff", "hdr_http", "hdr_ws"]

    # ---- F0: the CRC oracle
    def fam_crc(self):
        n = 150 if self.quick else 1500
        data = [b"", b"\x00", b"\xff", b"123456789", b"\x00" * 8, b"\xff" * 8]
        for _ in range(n):
            data.append(self.rand(self.rng.choice([1, 2, 3, 4, 7, 8, 9, 12, 16, 31, 64, 255, 256, 1000])))
        self.add({"op": "crc", "fam": "crc", "kind": "oracle", "data": [hx(d) for d in data], "_data": data})

    # ---- F1: real client <-> real server
    def lens(self, t):
        if t == "udp":
            base = [0, 1, 2, 7, 8, 9, 12, 255, 256, 257, 1472, 1473, 4096, 32767, 32768, 65498, 65499]
            return base
        base = [0, 1, 2, 3, 4, 5, 7, 8, 11, 12, 13, 125, 126, 127, 255, 256, 257, 4095, 4096, 4097,
                8192, 32768, 65499, 65507, 65535, 65536, 65537, 131072]
        if not self.quick:
            base += [16384, 65536 * 3, (1 << 20) - 1, 1 << 20, (1 << 20) + 1, 4 << 20, (4 << 20) + 13]
        return base

    def fam_calls(self, t, parts=("sequential", "wire", "parallel", "oversize")):
        lens = self.lens(t)
        items, meta = [], []
        for k, L in enumerate(lens if "sequential" in parts else []):
            R = lens[(k * 7 + 3) % len(lens)]
            kinds = self.KINDS if L <= 4096 else [self.KINDS[k % len(self.KINDS)]]
            for j, kind in enumerate(kinds):
                if L == 0 and j > 0:
                    continue
                req = self.content(L, kind)
                if L >= 8 and j == 0:
                    # make requests distinct so that the scripted answer is the intended one
                    req = req[:-4] + self.rand(4)
                resp = self.content(R if j == 0 else lens[(k + j) % len(lens)], self.KINDS[(k + j + 2) % len(self.KINDS)])
                if any(req == r for r, _ in meta):
                    continue
                items.append({"req": hx(req), "resp": hx(resp)})
                meta.append((req, resp))
        if items:
            self.add({"op": "calls", "t": t, "fam": "calls", "kind": "sequential", "items": items, "_items": meta})
        # wire capture (relay between the real client and the real server): sizes kept moderate
        if t in ("tcp", "unix", "udp") and "wire" in parts:
            items, meta = [], []
            for k, L in enumerate([x for x in lens if x <= 70000][:24]):
                req = self.content(L, self.KINDS[(k + 1) % len(self.KINDS)])
                resp = self.content(lens[(k * 5 + 1) % len(lens)] % 70001 if t != "udp" else lens[(k * 5 + 1) % len(lens)],
                                    self.KINDS[(k + 4) % len(self.KINDS)])
                if any(req == r for r, _ in meta):
                    continue
                items.append({"req": hx(req), "resp": hx(resp)})
                meta.append((req, resp))
            self.add({"op": "calls", "t": t, "fam": "calls", "kind": "wire", "wire": True, "items": items, "_items": meta})
        # UDP: bodies that do not fit one datagram are refused (request) or answered by an error
        # frame (response) - never cut to size, and the connection stays usable
        if t == "udp" and "oversize" in parts:
            meta, experr, undeliv = [], set(), set()
            for k, (rl, pl) in enumerate([(5, 5), (65500, 3), (9, 9), (70000, 3), (10, 65500), (11, 11), (12, 70000), (65499, 65499)]):
                req, resp = bytes([k]) + self.rand(rl - 1), bytes([k]) + self.rand(pl - 1)
                if self.m.q("utransport 1 " + hx(req)) == "refused":
                    experr.add(k)
                    undeliv.add(k)
                elif self.m.urun("C", [unhx(self.m.q("ureply 1 " + hx(resp)))], fixed=True)[0][0] != "D":
                    experr.add(k)
                meta.append((req, resp))
            self.add({"op": "calls", "t": t, "fam": "calls", "kind": "oversize", "fresh": True,
                      "items": [{"req": hx(a), "resp": hx(b)} for a, b in meta], "_items": meta,
                      "_experr": experr, "_undeliv": undeliv})
        if "parallel" not in parts:
            return
        # many calls in flight on one connection
        items, meta = [], []
        for k in range(48 if (self.quick or t == "udp") else 160):   # udp: stay within the socket buffers
            L = self.rng.choice([0, 1, 5, 12, 13, 100, 255, 256, 1000, 5000])
            req = bytes([k & 0xff, k >> 8]) + self.content(L, self.KINDS[k % len(self.KINDS)])
            resp = bytes([k & 0xff]) + self.content(self.rng.choice([0, 1, 12, 300, 4096]), self.KINDS[(k + 3) % len(self.KINDS)])
            items.append({"req": hx(req), "resp": hx(resp)})
            meta.append((req, resp))
        self.add({"op": "calls", "t": t, "fam": "calls", "kind": "parallel", "parallel": True, "fresh": True,
                  "items": items, "_items": meta})

    # ---- F2: raw stream client -> real socket server
    def stream_case(self, t, segs, kind, chunking="one", close=True):
        """segs: ("frame", idx, body)            a well-formed frame
                 ("flagged", idx, body)          well-formed, index carries the error flag (bit 31)
                 ("broken", bytes)               anything else (corrupted header, cut frame, noise)
        Property: the bodies of the well-formed frames before the first broken segment are handed
        to the service, byte for byte; nothing else is."""
        stream = b""
        intact = []
        broken = False
        for sg in segs:
            if sg[0] in ("frame", "flagged"):
                idx = sg[1] | (0x80000000 if sg[0] == "flagged" else 0)
                stream += self.m.smake(len(sg[2]), idx) + sg[2]
                if not broken:
                    intact.append((sg[1], sg[2]))
            else:
                stream += sg[1]
                broken = True
        mframes, mend = self.m.srecv(S, stream)
        expect_rx = sum(12 + len(dresp(b)) for _, b in mframes)
        if mend.startswith("toolarge"):
            expect_rx += 12 + len(TOO_LARGE)
        if chunking == "one":
            chunks = [stream]
        elif chunking == "dribble":
            chunks = [stream[i:i + 1] for i in range(len(stream))]
        else:
            cuts = sorted(set(self.rng.randrange(1, max(2, len(stream))) for _ in range(min(12, len(stream)))))
            chunks = [stream[a:b] for a, b in zip([0] + cuts, cuts + [len(stream)])]
        ends_by_itself = mend not in ("eof", "shorthdr") and not mend.startswith("shortbody")
        return self.add({"op": "raw_stream", "t": t, "fam": "raw_stream", "kind": kind,
                         "chunks": [hx(c) for c in chunks if c], "gap_us": 150 if chunking == "dribble" else 0,
                         "close": "write" if close else ("expect" if ends_by_itself else "none"),
                         "expect_rx": expect_rx, "wait_ms": 4000, "expect_deliveries": len(mframes),
                         "_stream": stream, "_intact": intact, "_mframes": mframes, "_mend": mend,
                         "_closes": close or ends_by_itself})

    def fam_raw_stream(self, t):
        r = self.rng
        q = self.quick
        # every single-bit corruption of the 96 header bits
        bases = [(5, 1, b"hello"), (0, 0x7fffffff, b""), (300, 77, self.rand(300)), (12, 3, self.m.smake(0, 9))]
        if not q:
            bases += [(65536, 0x12345678, self.rand(65536)), (1, 0, b"\x80")]
        for bi, (L, idx, body) in enumerate(bases[:(2 if q else len(bases))]):
            hdr = self.m.smake(L, idx)
            for k in range(96):
                self.stream_case(t, [("broken", self.m.flip(k, hdr) + body)], "bitflip")
        # a corrupted frame after good ones: the good ones still arrive, the rest does not
        hdr = self.m.smake(4, 9)
        for k in ([0, 31, 32, 39, 63, 64, 71, 95] if q else range(0, 96, 5)):
            self.stream_case(t, [("frame", 5, b"good-1"), ("frame", 6, b""), ("broken", self.m.flip(k, hdr) + b"evil"),
                                 ("frame", 7, b"after")], "bitflip_after_good")
        # declared versus actual length (the stream ends after the frame)
        D = [0, 1, 2, 11, 12, 13, 255, 256, 4096, 65536] if q else [0, 1, 2, 3, 11, 12, 13, 24, 255, 256, 257, 4096, 65535, 65536, 1 << 20]
        A = [0, 1, 2, 11, 12, 13, 255, 256, 4096] if q else [0, 1, 2, 3, 11, 12, 13, 24, 255, 256, 257, 4096, 65536]
        for d in D:
            for a in A:
                if q and d != a and (d > 256 or a > 256) and r.random() < 0.6:
                    continue
                body = self.content(a, r.choice(self.KINDS) if d >= a else r.choice(["rand", "zero", "ff"]))
                if d == a:
                    self.stream_case(t, [("frame", 21, body)], "decl_eq")
                elif d > a:
                    self.stream_case(t, [("broken", self.m.smake(d, 21) + body)], "decl_gt")
                else:
                    # by the framing rules this is a frame of d bytes followed by a-d bytes of noise
                    self.stream_case(t, [("frame", 21, body[:d]), ("broken", body[d:])], "decl_lt")
        # streams cut at every offset of a frame (mid-header, mid-body), after complete frames
        body = self.rand(9)
        fr = self.m.smake(len(body), 33) + body
        for cut in range(1, len(fr)):
            self.stream_case(t, [("frame", 31, b"complete"), ("frame", 32, b""), ("broken", fr[:cut])], "cut")
        for L in ([256, 65536] if q else [255, 256, 4096, 65535, 65536, 1 << 20]):
            b = self.rand(L)
            for cut in (12, 13, 12 + L // 2, 12 + L - 1):
                self.stream_case(t, [("broken", (self.m.smake(L, 34) + b)[:cut])], "cut")
        # many frames in one write, random chunkings, one frame dribbled byte by byte
        for rep in range(2 if q else 8):
            segs = []
            for k in range(40 if q else 120):
                L = r.choice([0, 0, 1, 2, 11, 12, 13, 24, 100, 255, 256, 1000])
                segs.append(("frame", r.choice([k + 1, 0, 0x7fffffff, r.randrange(1 << 31)]),
                             bytes([k]) + self.content(L, self.KINDS[k % len(self.KINDS)])))
            self.stream_case(t, segs, "many_one_write", close=False)
            self.stream_case(t, segs[:12], "many_random_chunks", chunking="random", close=False)
        for body in [b"", b"x", self.m.smake(3, 1) + b"abc", self.rand(40)]:
            self.stream_case(t, [("frame", 41, body)], "dribble", chunking="dribble", close=False)
        self.stream_case(t, [("frame", 42, b"one"), ("frame", 43, self.m.smake(0, 44)), ("frame", 45, b"")], "dribble",
                         chunking="dribble", close=False)
        # payloads that are themselves frames / headers
        inner = self.m.smake(5, 99) + b"inner"
        self.stream_case(t, [("frame", 51, inner), ("frame", 52, inner + inner), ("frame", 53, self.m.smake(1 << 30, 1))],
                         "lookalike", close=False)
        # boundary lengths through the raw path (header bytes from the model, body exact)
        for L in ([0, 1, 255, 256, 65535, 65536, 131072] if q else [0, 1, 127, 128, 255, 256, 65535, 65536, 65537, 3 * 65536, 1 << 20, (1 << 20) + 1]):
            self.stream_case(t, [("frame", 61, self.rand(L))], "boundary", close=False)
        # index edge values and the error flag on a request (the server masks it and carries on)
        for idx in (0, 1, 0x7fffffff, 0x00800000, 0x7f000000):
            self.stream_case(t, [("frame", idx, b"idx")], "index", close=False)
        self.stream_case(t, [("flagged", 5, b"flagged request")], "flagged", close=False)
        # declared length beyond MaxRequestLength
        self.stream_case(t, [("broken", self.m.smake(MAXREQ + 1, 71) + b"x" * 16)], "too_large", close=False)
        self.stream_case(t, [("broken", self.m.smake(0x7fffffff, 72))], "too_large", close=False)
        # every high bit of the length field counts: 2^b + 5 declared, 5 bytes sent, nothing may arrive
        for b in range(24, 31):
            self.stream_case(t, [("broken", self.m.smake((1 << b) + 5, 73) + b"12345")], "high_length_bit")
        # noise
        for _ in range(8 if q else 60):
            self.stream_case(t, [("broken", self.rand(r.choice([1, 11, 12, 13, 40])))], "noise")

    # ---- F3: raw datagrams -> real UDP server
    def fill(self, n):
        s = b"SECRET-OF-CLIENT-ONE/"
        return (s * (n // len(s) + 1))[:n]

    def udp_case(self, dgrams, kind, pipelined=False):
        """dgrams: list of (from_socket, bytes, payload_if_well_formed_else_None).  The first one is
        always a well-formed 'fill' from the other client covering every buffer byte the case can
        reach, which makes the model's zero-buffer run and the server's real buffer agree."""
        self.nbar += 1
        mk = HEALTH + b"b%d" % self.nbar
        barrier = self.m.umake(len(mk), 0x7ffe) + mk
        bresp = self.m.umake(len(mk) + 2, 0x7ffe) + dresp(mk)
        mres = self.m.urun(S, [d for _, d, _ in dgrams])
        mfix = self.m.urun(S, [d for _, d, _ in dgrams], fixed=True)
        return self.add({"op": "raw_udp", "t": "udp", "fam": "raw_udp", "kind": kind, "_mfix": mfix,
                         "dgrams": [{"from": f, "data": hx(d), "wait_ms": 400 if (p is not None and not pipelined) else 0} for f, d, p in dgrams],
                         "barrier": hx(barrier), "barrier_resp": hx(bresp),
                         "expect_deliveries": sum(1 for r in (mfix if "udp" in self.repaired else mres) if r[0] == "D"),
                         "_dgrams": dgrams, "_mres": mres})

    def fam_raw_udp(self):
        r, q = self.rng, self.quick

        def wf(frm, idx, payload):
            return (frm, self.m.umake(len(payload), idx) + payload, payload)

        # the probes of the known behaviour first (their replays are the ones recorded):
        # client two declares 20 bytes and sends "hi" after client one's 20-byte secret;
        # a datagram declaring 2 bytes and carrying "hello"
        self.udp_case([wf(1, 1, b"SECRET-OF-CLIENT-ONE"), (0, self.m.umake(20, 2) + b"hi", None)], "decl_gt")
        self.udp_case([wf(1, 1, b"SECRET-OF-CLIENT-ONE"), (0, self.m.umake(2, 2) + b"hello", None)], "decl_lt")
        # every single-bit corruption of the 64 header bits
        bases = [(1, b"hello-udp"), (0x7fff, b""), (300, self.rand(300))]
        for idx, body in bases[:(2 if q else 3)]:
            hdr = self.m.umake(len(body), idx)
            for k in range(64):
                self.udp_case([wf(1, 9, self.fill(max(64, len(body)))), (0, self.m.flip(k, hdr) + body, None)], "bitflip")
        # declared versus actual, two clients, recognisable bytes of the first in the buffer
        D = [0, 1, 2, 8, 20, 255, 256, 1472, 65499, 65535] if q else [0, 1, 2, 7, 8, 9, 20, 255, 256, 257, 1472, 4096, 32768, 65499, 65500, 65535]
        A = [0, 1, 2, 8, 20, 255, 256, 1472] if q else [0, 1, 2, 7, 8, 9, 20, 255, 256, 257, 1472, 4096, 65499]
        for d in D:
            for a in A:
                if q and d != a and d > 300 and a > 2 and r.random() < 0.5:
                    continue
                body = self.content(a, r.choice(self.KINDS)) if a != 2 else b"hi"
                filler = wf(1, 7, self.fill(min(65499, max(64, d, a))))
                if d == a:
                    self.udp_case([filler, wf(0, 21, body)], "decl_eq")
                else:
                    self.udp_case([filler, (0, self.m.umake(d, 21) + body, None)], "decl_gt" if d > a else "decl_lt")
        # fewer than 8 bytes
        for n in range(0, 8):
            self.udp_case([wf(1, 7, self.fill(64)), (0, self.m.umake(5, 1)[:n], None)], "short")
        # boundaries of the datagram size, index edge values, error flag on a request
        for L in ([0, 1, 255, 256, 65498, 65499] if q else [0, 1, 7, 8, 255, 256, 1472, 1473, 32767, 32768, 65498, 65499]):
            self.udp_case([wf(1, 7, self.fill(64)), wf(0, 31, self.rand(L))], "boundary")
        for idx in (0, 1, 0x7fff, 0x0080, 0x7f00):
            self.udp_case([wf(1, 7, self.fill(64)), wf(0, idx, b"idx")], "index")
        self.udp_case([wf(1, 7, self.fill(64)), (0, self.m.umake(7, 5 | 0x8000) + b"flagged", b"flagged")], "flagged")
        for _ in range(6 if q else 40):
            self.udp_case([wf(1, 7, self.fill(64)), (0, self.rand(r.choice([8, 9, 20, 100])), None)], "noise")
        # look-alike payloads
        inner = self.m.umake(3, 1) + b"abc"
        self.udp_case([wf(1, 7, self.fill(64)), wf(0, 41, inner), wf(0, 42, inner * 3)], "lookalike")

    # ---- F4: raw websocket client -> real websocket server
    def ws_case(self, msgs, kind):
        """msgs: list of (type, bytes).  Model: text messages are skipped; the first binary message that
        is not delivered ends the connection."""
        exp, stop = [], None
        for ty, data in msgs:
            if ty != "bin":
                continue
            res = self.m.wrecv(S, data)
            if res[0] == "D":
                exp.append((res[1], res[2]))
            else:
                stop = res[0]
                break
        return self.add({"op": "raw_ws", "t": "ws", "fam": "raw_ws", "kind": kind,
                         "msgs": [{"type": ty, "data": hx(d)} for ty, d in msgs],
                         "expect_msgs": len(exp) if stop is None else 0, "wait_ms": 3000, "expect_deliveries": len(exp),
                         "_msgs": msgs, "_exp": exp, "_stop": stop})

    def fam_raw_ws(self):
        q = self.quick
        for L in ([0, 1, 3, 4, 125, 126, 127, 65535, 65536, 65537] if q else
                  [0, 1, 2, 3, 4, 5, 121, 122, 125, 126, 127, 4096, 65531, 65532, 65535, 65536, 65537, 1 << 20]):
            body = self.content(L, self.rng.choice(self.KINDS))
            self.ws_case([("bin", self.m.wmake(7) + body)], "boundary")
        for n in range(0, 4):       # shorter than the prefix
            for first in (0x00, 0x7f, 0x80, 0xff):
                self.ws_case([("bin", bytes([first, 1, 2])[:n])], "short")
                if n == 0:
                    break
        self.ws_case([("bin", self.m.wmake(5) + b"ok"), ("bin", b"\x00\x01"), ("bin", self.m.wmake(6) + b"never")], "short_after_good")
        self.ws_case([("bin", self.m.wmake(5 | 0x80000000) + b"flagged")], "flagged")
        self.ws_case([("text", b"ignored text"), ("bin", self.m.wmake(9) + b"after text")], "text")
        msgs = [("bin", self.m.wmake(k + 1) + bytes([k]) + self.content(self.rng.choice([0, 1, 4, 125, 126, 300]), self.KINDS[k % 7]))
                for k in range(20)]
        self.ws_case(msgs, "many")
        for idx in (0, 1, 0x7fffffff, 0x00800000):
            self.ws_case([("bin", self.m.wmake(idx) + b"idx")], "index")
        inner = self.m.wmake(3) + b"abc"
        self.ws_case([("bin", self.m.wmake(11) + inner), ("bin", self.m.wmake(12) + self.m.smake(5, 1) + b"hello")], "lookalike")

    # ---- F5: raw HTTP -> real HTTP servers
    def http_case(self, t, declared, body, kind, chunked=False, mx=None):
        side = S if mx is None else "S%d" % mx
        if chunked:
            wire = b""
            rest = body
            while rest:
                n = self.rng.choice([1, 2, 7, 16, 1000])
                wire += b"%x\r\n" % len(rest[:n]) + rest[:n] + b"\r\n"
                rest = rest[n:]
            wire += b"0\r\n\r\n"
            head = b"POST / HTTP/1.1\r\nHost: hv\r\nTransfer-Encoding: chunked\r\n\r\n"
            declared = -1
        else:
            wire = body
            head = b"POST / HTTP/1.1\r\nHost: hv\r\nContent-Length: %d\r\n\r\n" % declared
        limited = body if declared < 0 else body[:declared]     # net/http never reads past Content-Length
        mres = self.m.hrecv(side, declared if not chunked else -1, limited, fixed=(t == "fasthttp"))
        mfix = self.m.hrecv(side, declared if not chunked else -1, limited, fixed=True)
        return self.add({"op": "raw_http", "t": t, "fam": "raw_http", "kind": kind, "_mfix": mfix,
                         "max": mx or 0, "_max": mx or MAXREQ,
                         "chunks": [hx(head + wire)], "close": "write" if declared > len(body) else "", "wait_ms": 3000,
                         "expect_deliveries": 1 if (mfix if "http" in self.repaired else mres)[0] == "D" else 0,
                         "_declared": declared, "_body": body, "_mres": mres})

    def fam_raw_http(self, t):
        q, r = self.quick, self.rng
        for L in ([0, 1, 255, 256, 4096, 65536] if q else [0, 1, 2, 255, 256, 4095, 4096, 4097, 65535, 65536, 1 << 20]):
            body = self.content(L, r.choice(self.KINDS))
            self.http_case(t, L, body, "decl_eq")
            if L:
                self.http_case(t, -1, body, "chunked", chunked=True)
        for d, a in ([(20, 2), (1, 0), (256, 255), (4096, 100), (65536, 65535)] if q else
                     [(20, 2), (1, 0), (2, 1), (256, 255), (257, 256), (4096, 100), (65536, 65535), (1 << 20, 5)]):
            self.http_case(t, d, b"hi" if a == 2 else self.rand(a), "decl_gt")
        for d, a in [(2, 5), (0, 3), (255, 256), (4096, 5000)]:
            self.http_case(t, d, self.rand(a), "decl_lt")
        self.http_case(t, MAXREQ + 1, b"x", "too_large")
        # a lowered MaxRequestLength: bodies around the limit, with and without Content-Length -
        # the service gets the whole body or nothing, never its first `limit` bytes
        for mx in ([1000] if q else [64, 1000, 4096]):   # not below the executor's own health-call size
            for L in sorted({max(0, mx - 1), mx, mx + 1, mx + 2, 2 * mx, 4 * mx, 4 * mx + 3}):
                body = self.content(L, r.choice(["rand", "hdr_http", "ff"]))
                self.http_case(t, -1, body, "small_limit_chunked", chunked=True, mx=mx)
                self.http_case(t, L, body, "small_limit_declared", mx=mx)
            self.http_case(t, mx, self.rand(mx + 5), "small_limit_decl_lt", mx=mx)

    # ---- F6: fake servers -> real client (response direction)
    def fake_stream_case(self, t, reply_chunks, kind, intended, end="close", gap=0):
        req = b"ping-%d" % len(self.cases)
        stream = b"".join(reply_chunks)
        mframes, mend = self.m.srecv("C", stream)
        exp = next((b for i, b in mframes if i == 1), None)
        return self.add({"op": "fake_stream", "t": t, "fam": "fake_stream", "kind": kind, "req": hx(req),
                         "read_n": 12 + len(req), "reply": [hx(c) for c in reply_chunks if c], "reply_end": end,
                         "gap_us": gap, "timeout_ms": 1200,
                         "_req": req, "_exp": exp, "_mend": mend, "_intended": intended})

    def fam_fake_stream(self, t):
        q, r = self.quick, self.rng
        f = lambda idx, body: self.m.smake(len(body), idx) + body
        for L in ([0, 1, 12, 255, 256, 65536] if q else [0, 1, 11, 12, 13, 255, 256, 4096, 65535, 65536, 65537, 1 << 20]):
            body = self.content(L, r.choice(self.KINDS))
            self.fake_stream_case(t, [f(1, body)], "boundary", body, end="keep")
        # all 96 single-bit corruptions of a response header
        for body in ([b"pong!"] if q else [b"pong!", b"", self.rand(300)]):
            hdr = self.m.smake(len(body), 1)
            for k in range(96):
                self.fake_stream_case(t, [self.m.flip(k, hdr) + body], "bitflip", None)
        # declared versus actual
        for d, a in [(0, 0), (5, 5), (20, 2), (1, 0), (256, 255), (65536, 100), (2, 5), (0, 3), (255, 256)]:
            body = self.rand(a)
            if d == a:
                self.fake_stream_case(t, [f(1, body)], "decl_eq", body)
            elif d > a:
                self.fake_stream_case(t, [self.m.smake(d, 1) + body], "decl_gt", None)
            else:
                self.fake_stream_case(t, [self.m.smake(d, 1) + body], "decl_lt", body[:d])
        # cut inside header / body
        fr = f(1, b"123456789")
        for cut in (1, 6, 11, 12, 13, 20):
            self.fake_stream_case(t, [fr[:cut]], "cut", None)
        # dribbled, other calls' frames first, error flag, unknown index
        body = self.m.smake(3, 1) + b"abc"     # a body that is itself a frame for this very call
        fr = f(1, body)
        self.fake_stream_case(t, [fr[i:i + 1] for i in range(len(fr))], "dribble", body, end="keep", gap=150)
        self.fake_stream_case(t, [f(2, b"not yours") + f(0x7fffffff, b"nor this") + f(1, b"yours")], "other_first", b"yours", end="keep")
        self.fake_stream_case(t, [f(1 | 0x80000000, b"some error text")], "flagged", None, end="keep")
        self.fake_stream_case(t, [f(2, b"not yours")], "unknown_index", None, end="keep")

    def fake_udp_case(self, replies, kind, intended):
        req = b"ping-%d" % len(self.cases)
        def walk(mres):
            for res in mres:
                if res[0] == "D" and res[1] == 1:
                    return ("ok", res[2])
                if res[0] != "D":
                    return ("err", None)
            return None
        exp = walk(self.m.urun("C", replies))
        expfix = walk([self.m.urun("C", [d], fixed=True)[0] for d in replies])
        return self.add({"op": "fake_udp", "t": "udp", "fam": "fake_udp", "kind": kind, "req": hx(req), "_expfix": expfix,
                         "reply": [hx(d) for d in replies], "timeout_ms": 1200, "gap_us": 300,
                         "_req": req, "_exp": exp, "_intended": intended})

    def fam_fake_udp(self):
        q, r = self.quick, self.rng
        f = lambda idx, body: self.m.umake(len(body), idx) + body
        for L in ([0, 1, 255, 256, 65499] if q else [0, 1, 7, 8, 255, 256, 1472, 32768, 65498, 65499]):
            body = self.content(L, r.choice(self.KINDS))
            self.fake_udp_case([f(1, body)], "boundary", body)
        for body in ([b"pong!"] if q else [b"pong!", b"", self.rand(300)]):
            hdr = self.m.umake(len(body), 1)
            for k in range(64):
                self.fake_udp_case([self.m.flip(k, hdr) + body], "bitflip", None)
        for d, a in [(6, 2), (2, 5), (0, 0), (5, 5), (20, 2), (1, 0), (256, 255), (65535, 100), (0, 3), (255, 256)]:
            body = b"hi" if a == 2 else (b"hello" if a == 5 else self.rand(a))
            if d == a:
                self.fake_udp_case([f(1, body)], "decl_eq", body)
            else:
                self.fake_udp_case([self.m.umake(d, 1) + body], "decl_gt" if d > a else "decl_lt", None)
        for n in range(0, 8):
            self.fake_udp_case([self.m.umake(3, 1)[:n]], "short", None)
        self.fake_udp_case([f(2, b"not yours"), f(1, b"yours")], "other_first", b"yours")
        self.fake_udp_case([f(1 | 0x8000, b"some error text")], "flagged", None)
        self.fake_udp_case([f(2, b"not yours")], "unknown_index", None)

    def fake_ws_case(self, replies, kind, intended):
        req = b"ping-%d" % len(self.cases)
        exp = None
        for msg in replies:
            res = self.m.wrecv("C", msg)
            if res[0] == "D" and res[1] == 1:
                exp = ("ok", res[2])
                break
            if res[0] != "D":
                exp = ("err", None)
                break
        return self.add({"op": "fake_ws", "t": "ws", "fam": "fake_ws", "kind": kind, "req": hx(req),
                         "reply": [hx(d) for d in replies], "reply_end": "keep", "timeout_ms": 1200,
                         "_req": req, "_exp": exp, "_intended": intended})

    def fam_fake_ws(self):
        q, r = self.quick, self.rng
        f = lambda idx, body: self.m.wmake(idx) + body
        for L in ([0, 1, 125, 126, 65536] if q else [0, 1, 4, 121, 122, 125, 126, 127, 65531, 65532, 65535, 65536, 1 << 20]):
            body = self.content(L, r.choice(self.KINDS))
            self.fake_ws_case([f(1, body)], "boundary", body)
        self.fake_ws_case([f(2, b"not yours"), f(1, b"yours")], "other_first", b"yours")
        self.fake_ws_case([f(1 | 0x80000000, b"some error text")], "flagged", None)
        self.fake_ws_case([f(2, b"not yours")], "unknown_index", None)
        self.fake_ws_case([f(1, f(1, b"nested"))], "lookalike", f(1, b"nested"))
        # NOT generated: a binary message shorter than 4 bytes to the real client. conn.receive
        # panics on it and conn.Exit's recover() is one call too deep to catch it, which takes the
        # whole process (this executor) down — that is property C11's finding, not C12's.

    def fake_http_case(self, t, declared, body, kind, intended, status=b"200 OK", chunked=False):
        req = b"ping-%d" % len(self.cases)
        if chunked:
            raw = b"HTTP/1.1 %s\r\nTransfer-Encoding: chunked\r\n\r\n" % status
            rest = body
            while rest:
                n = self.rng.choice([1, 3, 100])
                raw += b"%x\r\n" % len(rest[:n]) + rest[:n] + b"\r\n"
                rest = rest[n:]
            raw += b"0\r\n\r\n"
            declared = -1
        else:
            raw = b"HTTP/1.1 %s\r\nContent-Length: %d\r\n\r\n" % (status, declared) + body
        res = self.m.hrecv("C", declared, body if declared < 0 else body[:declared])
        exp = ("ok", res[2]) if res[0] == "D" else ("err", None)
        if not status.startswith(b"200"):
            exp = ("err", None)
        return self.add({"op": "fake_http", "t": t, "fam": "fake_http", "kind": kind, "req": hx(req),
                         "reply": [hx(raw)], "timeout_ms": 1500,
                         "_req": req, "_exp": exp, "_intended": intended})

    def fam_fake_http(self, t):
        q, r = self.quick, self.rng
        for L in ([0, 1, 256, 65536] if q else [0, 1, 255, 256, 4096, 65535, 65536, 1 << 20]):
            body = self.content(L, r.choice(self.KINDS))
            self.fake_http_case(t, L, body, "boundary", body)
            if L:
                self.fake_http_case(t, -1, body, "chunked", body, chunked=True)
        for d, a in [(6, 2), (20, 2), (1, 0), (256, 255), (65536, 100)]:
            self.fake_http_case(t, d, self.rand(a), "decl_gt", None)
        for d, a in [(2, 5), (255, 256)]:
            b = self.rand(a)
            self.fake_http_case(t, d, b, "decl_lt", b[:d])
        self.fake_http_case(t, 5, b"nope!", "status", None, status=b"500 Internal Server Error")

    def fam_pool(self, streams):
        """the delivery families again with Handler.Pool set (a bounded queue, slow workers): tasks
        run after the receive loop has read later frames of the same connection"""
        r = self.rng
        self.pool = True
        try:
            for t in streams + ["udp", "ws"]:
                self.fam_calls(t, parts=("parallel", "wire") if self.quick else ("sequential", "parallel", "wire"))
            for t in streams:
                self.stream_case(t, [("frame", k, b"message-%d" % k) for k in range(1, 6)], "pipelined", close=False)
                for rep in range(2 if self.quick else 6):
                    segs = []
                    for k in range(40 if self.quick else 150):
                        L = r.choice([0, 0, 1, 2, 11, 12, 13, 24, 100, 255, 256, 1000])
                        segs.append(("frame", k + 1, bytes([k & 0xff]) + self.content(L, self.KINDS[k % len(self.KINDS)])))
                    self.stream_case(t, segs, "many_one_write", close=False)
                    self.stream_case(t, segs[:15], "many_random_chunks", chunking="random", close=False)
                    self.stream_case(t, segs[:9] + [("broken", self.rand(12))], "many_then_noise")
            for rep in range(2 if self.quick else 6):
                dg = [(k % 2, self.m.umake(len(b), k + 1) + b, b)
                      for k, b in ((k, b"message-%d/" % k + self.rand(r.choice([0, 1, 20, 300]))) for k in range(30))]
                self.udp_case(dg, "pipelined", pipelined=True)
            for rep in range(2 if self.quick else 6):
                msgs = [("bin", self.m.wmake(k + 1) + b"message-%d/" % k + self.content(r.choice([0, 1, 4, 125, 126, 300]), self.KINDS[k % 7]))
                        for k in range(30)]
                self.ws_case(msgs, "many")
        finally:
            self.pool = False

    def fam_abandoned(self, streams):
        """calls whose context ends while the request is still being written (the peer stopped
        reading) or not yet written (held connect), after which the caller reuses its buffer"""
        size = 6 << 20
        ts = streams + ["ws", "http", "fasthttp"]
        for t in ts:
            for how in ("cancel", "timeout", "abort"):
                self.add({"op": "abandoned", "t": t, "fam": "abandoned", "kind": "peer-stalls/" + how,
                          "how": how, "hold": "peer", "size": size})
        for t in ("http", "fasthttp"):
            for how in ("cancel", "timeout", "abort"):
                for sz in ((300,) if self.quick else (0, 300, 70000)):
                    self.add({"op": "abandoned", "t": t, "fam": "abandoned", "kind": "connect-held/" + how,
                              "how": how, "hold": "dial", "size": sz})

    def fam_index_run(self):
        """one connection, calls numbered past the point where the 15-bit request index wraps"""
        n = 33000 if self.quick else 66000
        self.add({"op": "udp_index_run", "t": "udp", "fam": "index_run", "kind": "wrap", "n": n, "_n": n})

    def all(self):
        q = self.quick
        self.fam_crc()
        streams = ["tcp"] if q else ["tcp", "unix"]
        https = ["http"] if q else ["http", "fasthttp"]
        for t in streams + ["udp", "ws"] + https:
            self.fam_calls(t)
        for t in streams:
            self.fam_raw_stream(t)
        self.fam_raw_udp()
        self.fam_raw_ws()
        for t in https:
            self.fam_raw_http(t)
        for t in streams:
            self.fam_fake_stream(t)
        self.fam_fake_udp()
        self.fam_fake_ws()
        for t in https:
            self.fam_fake_http(t)
        self.fam_pool(streams)
        self.fam_index_run()
        self.fam_abandoned(streams)      # last: its late deliveries must not land in other cases
        return self.cases


# ------------------------------------------------------------------------------ evaluation

class Verdict:
    """per case: env (says nothing) | agree/disagree with the model | oracle failure (property violated)"""

    def __init__(self):
        self.env = None
        self.disagree = []      # texts: against the faithful model of the pinned code
        self.disagree_fixed = None  # against the model of the repaired loop (sites that have one)
        self.oracle = []        # (class, text)
        self.inconclusive = []

    def dis(self, s):
        self.disagree.append(s)
        if self.disagree_fixed is not None:
            self.disagree_fixed.append(s)

    def bad(self, cls, s):
        self.oracle.append((cls, s))


def msorted(xs):
    return sorted(xs)


def surplus(got, allowed):
    """multiset difference got - allowed"""
    left = list(allowed)
    out = []
    for g in got:
        if g in left:
            left.remove(g)
        else:
            out.append(g)
    return out


def eval_case(m, c, o):
    v = Verdict()
    if o is None:
        v.env = "no observation"
        return v
    if o.get("env"):
        v.env = o["env"]
        return v
    fam = c["fam"]
    delivered = o.get("delivered", [])

    if fam == "crc":
        for d, g in zip(c["_data"], o["crcs"]):
            mine = int(m.q("crc " + hx(d)))
            if mine != g:
                v.dis("Lib/Crc32.crc32(%s) = %d but hash/crc32 says %d" % (short(d), mine, g))
            if zlib.crc32(d) != g:
                v.dis("zlib and hash/crc32 disagree on %s" % short(d))
        return v

    if fam == "calls":
        t = c["t"]
        items = c["_items"]
        experr, undeliv = c.get("_experr", set()), c.get("_undeliv", set())
        for k, ((req, resp), co) in enumerate(zip(items, o["calls"])):
            want = resp if resp else RNZ
            if k in experr or max(len(req), len(resp)) > 65499 and t == "udp":
                # model: refused / answered by an error frame.  property: an error, never a cut body
                if not co.get("err"):
                    if k in experr:
                        v.dis("model: call %d (request %d, response %d bytes) fails; the caller received %s"
                              % (k, len(req), len(resp), co.get("resp", "")[:40]))
                    if co.get("resp") != enc(want):
                        v.bad("oversize-body-cut", "udp call %d: request %d bytes, response %d bytes: the caller received %s"
                              % (k, len(req), len(resp), co.get("resp", "")[:60]))
                elif k not in experr:
                    v.dis("model: call %d succeeds, observed error %s" % (k, co["err"][:80]))
                continue
            if co.get("err"):
                if co["err"].startswith("ENV:"):
                    v.env = co["err"]
                    return v
                if co["err"].startswith("SKIPPED"):
                    continue
                if "deadline exceeded" in co["err"] or "timeout" in co["err"].lower():
                    v.inconclusive.append("call timeout")     # re-run alone before it counts
                v.bad("call-failed", "%s call %d (request %d bytes, response %d bytes) failed: %s"
                      % (t, k, len(req), len(resp), co["err"][:200]))
            elif co.get("resp") != enc(want):
                v.bad("response-not-exact", "%s call %d: service produced %s, caller received %s"
                      % (t, k, short(want), co.get("resp", "")[:60]))
        skipped = [k for k, co in enumerate(o["calls"]) if co.get("err", "").startswith("SKIPPED")]
        want = msorted(enc(r) for k, (r, _) in enumerate(items) if k not in skipped and k not in undeliv)
        if msorted(delivered) != want and not (skipped and v.oracle):
            extra = surplus(delivered, want)
            v.bad("request-not-exact", "%s: requests handed to the service differ from the requests submitted "
                  "(%d delivered, %d submitted; first foreign delivery %s)" % (t, len(delivered), len(want), (extra or ["-"])[0][:60]))
        if c.get("wire") and not v.oracle:
            # the bytes on the wire are the model's frames, and the model's receive loops turn them
            # back into exactly these requests / responses (fresh client: indices 1, 2, ...)
            if t in ("tcp", "unix"):
                c2s = b"".join(m.smake(len(r), k + 1) + r for k, (r, _) in enumerate(items))
                s2c = b"".join(m.smake(len(p or RNZ), k + 1) + (p or RNZ) for k, (_, p) in enumerate(items))
                if unhx(o.get("c2s")) != c2s:
                    v.dis("client->server bytes differ from the model's frames (makeHeader of the client)")
                if unhx(o.get("s2c")) != s2c:
                    v.dis("server->client bytes differ from the model's frames (makeHeader of the server)")
                fr, end = m.srecv(S, unhx(o.get("c2s")))
                if [b for _, b in fr] != [r for r, _ in items] or end != "eof":
                    v.dis("model server loop on the captured request stream: %d frames, end %s" % (len(fr), end))
                fr, end = m.srecv("C", unhx(o.get("s2c")))
                if [b for _, b in fr] != [(p or RNZ) for _, p in items] or end != "eof":
                    v.dis("model client loop on the captured response stream: %d frames, end %s" % (len(fr), end))
            else:
                want_c = [m.umake(len(r), k + 1) + r for k, (r, _) in enumerate(items)]
                want_s = [m.umake(len(p or RNZ), k + 1) + (p or RNZ) for k, (_, p) in enumerate(items)]
                if [unhx(x) for x in o.get("c2s_dgrams", [])] != want_c:
                    v.dis("client datagrams differ from the model's (udp makeHeader of the client)")
                if [unhx(x) for x in o.get("s2c_dgrams", [])] != want_s:
                    v.dis("server datagrams differ from the model's (udp makeHeader of the server)")
        return v

    if fam == "raw_stream":
        t = c["t"]
        mframes, mend, intact = c["_mframes"], c["_mend"], c["_intact"]
        if o.get("healthy") is False:
            v.bad("server-dead", "%s server no longer serves a healthy call after this stream" % t)
        if msorted(delivered) != msorted(enc(b) for _, b in mframes):
            v.dis("model delivers %d bodies (end %s), the server handed over %d" % (len(mframes), mend, len(delivered)))
        want = msorted(enc(b) for _, b in intact)
        if msorted(delivered) != want:
            extra = surplus(delivered, want)
            if extra:
                v.bad("delivered-from-inconsistent-frame",
                      "%s %s: the service was handed %s, which no well-formed frame of the stream carries (or more often than the stream carries it)"
                      % (t, c["kind"], extra[0][:60]))
            else:
                if o.get("timeout"):
                    v.inconclusive.append("timeout")
                v.bad("intact-frame-not-delivered", "%s %s: %d well-formed frames before the first broken one, %d delivered"
                      % (t, c["kind"], len(want), len(delivered)))
        # the answers: parsed by the model's client loop
        rx = unhx(o.get("rx"))
        rframes, rend = m.srecv("C", rx)
        want_r = msorted((i & 0x7fffffff, dresp(b)) for i, b in mframes)
        got_r = msorted(rframes)
        if not o.get("timeout"):
            if mend.startswith("toolarge"):
                if not rend.startswith("errframe"):
                    v.dis("model: too-large error frame expected, got end %s" % rend)
            elif got_r != want_r:
                if c["_closes"] and len(got_r) < len(want_r) and all(x in want_r for x in got_r):
                    pass    # answers still in flight when the connection went down: not observable
                else:
                    v.dis("answers differ from the model: %d frames (end %s), expected %d" % (len(got_r), rend, len(want_r)))
            for i, b in rframes:
                if not any(b == dresp(fb) for _, fb in mframes) and not (b.startswith(b"r:") and enc(b[2:]) in delivered):
                    v.bad("response-not-exact", "%s: answer frame %d carries %s which is not the answer to a delivered request"
                          % (t, i, short(b)))
        if c["_closes"] and not o.get("eof"):
            v.inconclusive.append("connection not closed within the wait")
        return v

    if fam == "raw_udp":
        dg, mres = c["_dgrams"], c["_mres"]
        if o.get("healthy") is False:
            v.bad("server-dead", "udp server no longer serves a healthy call after these datagrams")
        got = []
        for rd in o.get("rx_dgrams", []):
            res = m.urun("C", [unhx(rd["data"])])[0]
            got.append((rd["sock"], res[0], res[1], res[2]))

        def against(mres):
            out = []
            mdel = [r[2] for r in mres if r[0] == "D"]
            if msorted(delivered) != msorted(enc(b) for b in mdel):
                out.append("model delivers %s, the server handed over %s" % ([short(b) for b in mdel], [d[:50] for d in delivered]))
            want = [(frm % 2, "D", r[1], dresp(r[2])) for (frm, d, p), r in zip(dg, mres) if r[0] == "D"]
            if msorted(got) != msorted(want):
                out.append("answers differ from the model: got %d expected %d" % (len(got), len(want)))
            return out
        v.disagree_fixed = against(c["_mfix"])
        v.disagree += against(mres)
        allowed = msorted(enc(p) for _, _, p in dg if p is not None)
        if msorted(delivered) != allowed:
            extra = surplus(delivered, allowed)
            if extra:
                sent = [d for _, d, p in dg if p is None]
                v.bad("delivered-from-inconsistent-datagram",
                      "udp %s: datagram %s (header then %d bytes) made the service receive %s"
                      % (c["kind"], short(sent[0], 8) if sent else "?", len(sent[0]) - 8 if sent else -1, extra[0][:80]))
            elif o.get("barrier_ok") is False:
                v.inconclusive.append("barrier lost")
            else:
                v.bad("intact-datagram-not-delivered", "udp %s: %d well-formed datagrams, %d delivered" % (c["kind"], len(allowed), len(delivered)))
        return v

    if fam == "raw_ws":
        exp, stop = c["_exp"], c["_stop"]
        if o.get("healthy") is False:
            v.bad("server-dead", "websocket server no longer serves a healthy call after these messages")
        if msorted(delivered) != msorted(enc(b) for _, b in exp):
            v.dis("model delivers %d bodies (stop %s), the server handed over %d" % (len(exp), stop, len(delivered)))
        intended = []
        for ty, data in c["_msgs"]:
            if ty != "bin":
                continue
            if len(data) < 4 or data[0] & 0x80:
                break
            intended.append(data[4:])
        if msorted(delivered) != msorted(enc(b) for b in intended):
            extra = surplus(delivered, [enc(b) for b in intended])
            v.bad("delivered-from-inconsistent-message" if extra else "intact-message-not-delivered",
                  "ws %s: %d deliverable messages, service received %s" % (c["kind"], len(intended), [d[:40] for d in delivered]))
        if stop is None and not o.get("timeout"):
            got = []
            for x in o.get("rx_msgs", []):
                if x.startswith("sha1:"):
                    got.append(x)
                else:
                    res = m.wrecv("C", unhx(x))
                    got.append((res[0], res[1], enc(res[2])))
            want = [("D", i, enc(dresp(b))) for i, b in exp]
            if any(isinstance(g, str) for g in got):
                got = [g if isinstance(g, str) else None for g in got]
                want = [enc(m.wmake(i) + dresp(b)) for i, b in exp]
                if msorted(x for x in got if x) != msorted(w for w in want if w.startswith("sha1:")):
                    v.dis("large answers differ from the model")
            elif msorted(got) != msorted(want):
                v.dis("answers differ from the model: got %d expected %d" % (len(got), len(want)))
        if stop is not None and not o.get("eof"):
            v.inconclusive.append("connection not closed within the wait")
        return v

    if fam == "raw_http":
        t, declared, body, mres = c["t"], c["_declared"], c["_body"], c["_mres"]
        if o.get("healthy") is False:
            v.bad("server-dead", "%s server no longer serves a healthy call after this request" % t)
        def against(mr):
            mdel = [enc(mr[2])] if mr[0] == "D" else []
            if delivered != mdel:
                return ["model: %s, the server handed over %s" % (mr[0] + ":" + short(mr[2]), [d[:50] for d in delivered])]
            return []
        v.disagree_fixed = against(c["_mfix"])
        v.disagree += against(mres)
        # property: the body is the bytes sent (HTTP framing: at most Content-Length of them);
        # a body that stops short of its declared length must not reach the service
        mx = c.get("_max", MAXREQ)
        eff = body if declared < 0 else body[:declared]
        if declared > len(body) or declared > mx or len(eff) > mx:
            allowed = []
        else:
            allowed = [enc(eff)]
        if delivered != allowed:
            if delivered:
                v.bad("delivered-from-inconsistent-request",
                      "%s %s: Content-Length %d, %d body bytes sent, service received %s"
                      % (t, c["kind"], declared, len(body), delivered[0][:80]))
            elif o.get("timeout"):
                v.inconclusive.append("timeout")
            else:
                v.bad("intact-request-not-delivered", "%s %s: Content-Length %d, %d body bytes sent, nothing delivered (status %s)"
                      % (t, c["kind"], declared, len(body), o.get("status")))
        if delivered and o.get("status") == 200:
            if mres[0] == "D" and enc(mres[2]) == delivered[0]:
                dbytes = mres[2]
            else:
                dbytes = None if delivered[0].startswith("sha1:") else unhx(delivered[0])
            if dbytes is not None and o.get("got") != enc(dresp(dbytes)):
                v.bad("response-not-exact", "%s: answer body is not the answer to the delivered request" % t)
        return v

    if fam == "abandoned":
        t = c["t"]
        if o.get("healthy") is False:
            v.bad("server-dead", "%s server no longer serves a healthy call after an abandoned call" % t)
        # property (and C12_abandoned_copy_exact): whatever the service is handed was submitted by
        # somebody, byte for byte.  ABANDONED_SUBMITTED is every request any abandoned-call case
        # submitted in this run (a late delivery may surface one case later).
        for d in delivered:
            if d not in ABANDONED_SUBMITTED:
                v.bad("abandoned-request-not-exact",
                      "%s, call ended by %s while its request was %s, caller then reused its buffer: the service was handed %s, "
                      "which nobody submitted (this call submitted %s)"
                      % (t, c["how"], "being written to a stalled peer" if c["hold"] == "peer" else "waiting for the connection",
                         d[:60], (o.get("submitted") or ["?"])[-1][:60]))
                break
        if o.get("pending_when_ended") is False:
            v.inconclusive.append("request fitted into the socket buffers")
        return v

    if fam == "index_run":
        n = c["_n"]
        if o.get("fails") or o.get("ok_count") != n:
            if any("deadline" in f or "timeout" in f.lower() for f in o.get("fails", [])):
                v.inconclusive.append("call timeout")
            v.bad("call-unanswered", "udp, one connection: %d of %d sequential calls answered with their own answer; %s"
                  % (o.get("ok_count", 0), n, "; ".join(o.get("fails", []))[:300]))
        done = o.get("done", 0)
        sent = unhx(o.get("c2s_hdrs"))
        back = unhx(o.get("s2c_hdrs"))
        hs = [sent[i:i + 8] for i in range(0, len(sent), 8)]
        hb = [back[i:i + 8] for i in range(0, len(back), 8)]
        if len(hs) != done:
            v.dis("%d request datagrams seen for %d calls" % (len(hs), done))
        for k, h in enumerate(hs, 1):
            idx = int(m.q("cidx udp %d" % k))
            if h != m.umake(4, idx):
                v.dis("request %d: the client framed %s, the model (index %d = counter & 0x7fff) %s" % (k, h.hex(), idx, m.umake(4, idx).hex()))
                break
        for k, h in enumerate(hb, 1):
            idx = int(m.q("cidx udp %d" % k))
            if h != m.umake(6, idx):
                v.dis("answer %d: the server framed %s, the model %s" % (k, h.hex(), m.umake(6, idx).hex()))
                break
        want = hashlib.sha1(b"".join(k.to_bytes(4, "big") for k in range(1, done + 1))).hexdigest()
        if o.get("delivered_n") != done or o.get("delivered_sha1") != want:
            v.bad("request-not-exact", "udp: the %d requests handed to the service are not the %d requests submitted, in order"
                  % (o.get("delivered_n", 0), done))
        return v

    if fam in ("fake_stream", "fake_udp", "fake_ws", "fake_http"):
        t = c["t"]
        co = o["calls"][0]
        exp, intended = c["_exp"], c["_intended"]
        # the request as the fake server saw it: the model's frame with index 1
        req = c["_req"]
        if fam == "fake_stream":
            if unhx(o.get("c2s")) != m.smake(len(req), 1) + req:
                v.dis("request frame of the real client differs from the model's frame with index 1")
            exp = ("ok", exp) if exp is not None else (("err", None) if (c["_mend"] != "eof" or c.get("reply_end") == "close") else None)
        elif fam == "fake_udp":
            if [unhx(x) for x in o.get("c2s_dgrams", [])] != [m.umake(len(req), 1) + req]:
                v.dis("request datagram of the real client differs from the model's datagram with index 1")
        elif fam == "fake_ws":
            if unhx(o.get("c2s")) != m.wmake(1) + req:
                v.dis("request message of the real client differs from the model's message with index 1")
        else:
            if unhx(o.get("c2s")) != req:
                v.dis("request body seen by the fake HTTP server differs from the request")
        got = ("ok", co["resp"]) if "resp" in co and not co.get("err") else ("err", co.get("err", ""))

        def against(exp):
            if exp is None:
                # the model says nothing reaches the caller and the connection stays up: a timeout
                if got[0] == "ok":
                    return ["model: no answer for this call, the caller received %s" % got[1][:60]]
            elif exp[0] == "ok":
                if got != ("ok", enc(exp[1])):
                    return ["model: caller receives %s, observed %s %s" % (short(exp[1]), got[0], str(got[1])[:60])]
            elif got[0] == "ok":
                return ["model: the call fails, the caller received %s" % got[1][:60]]
            return []
        if fam == "fake_udp":
            v.disagree_fixed = list(v.disagree) + against(c["_expfix"])
        v.disagree += against(exp)
        # property: the caller gets exactly what the service produced, or an error
        if got[0] == "ok":
            if intended is None:
                v.bad("delivered-from-inconsistent-response",
                      "%s %s: an inconsistent response reached the caller as %s" % (t, c["kind"], got[1][:80]))
            elif got[1] != enc(intended):
                v.bad("response-not-exact", "%s %s: service produced %s, caller received %s" % (t, c["kind"], short(intended), got[1][:80]))
        elif intended is not None:
            if o.get("timeout"):
                v.inconclusive.append("timeout")
            v.bad("intact-response-not-delivered", "%s %s: a well-formed response of %d bytes ended as error: %s"
                  % (t, c["kind"], len(intended), str(got[1])[:120]))
        return v

    raise hv.EnvError("unknown family " + fam)


def strip(c):
    return {k: v for k, v in c.items() if not k.startswith("_")}


def run_all(cases, timeout):
    """run the executor; if it dies on a case, record the case and continue after it"""
    obs, crashes = {}, []
    todo = [strip(c) for c in cases]
    while todo:
        rc, got, err = hv.run_harness("c12", todo, timeout=timeout)
        for o in got:
            obs[o["id"]] = o
        if rc == 0 and len(got) >= len(todo):
            break
        done = {o["id"] for o in got}
        idx = next((i for i, c in enumerate(todo) if c["id"] not in done), None)
        if idx is None:
            break
        crashes.append((todo[idx], rc, err[-1500:]))
        todo = todo[idx + 1:]
        if len(crashes) > 10:
            break
    return obs, crashes


def replay_of(c, o, v):
    r = {"case": strip(c), "observed": o, "failing_input": True,
         "model": {k[1:]: (repr(x)[:600]) for k, x in c.items() if k.startswith("_") and k not in ("_stream", "_items", "_data")},
         "oracle": [t for _, t in v.oracle], "model_disagreement": v.disagree[:5]}
    s = json.dumps(r, default=lambda x: x.hex() if isinstance(x, (bytes, bytearray)) else str(x))
    if len(s) > 400000:
        r["case"] = {k: (v2 if len(json.dumps(v2)) < 5000 else "(large: regenerate from the seed)") for k, v2 in strip(c).items()}
        r["observed"] = {k: (v2 if len(json.dumps(v2)) < 5000 else "(large)") for k, v2 in (o or {}).items()}
    return json.loads(json.dumps(r, default=lambda x: x.hex() if isinstance(x, (bytes, bytearray)) else str(x)))


ABANDONED_SUBMITTED = set()


def judge(ctx, m, cases, obs, second=None):
    """returns list of (case, observation, verdict)"""
    out = []
    ABANDONED_SUBMITTED.clear()
    ABANDONED_SUBMITTED.add(enc(b"warm-up"))
    for c in cases:
        if c["fam"] == "abandoned":
            for o in (obs.get(c["id"]), (second or {}).get(c["id"])):
                ABANDONED_SUBMITTED.update((o or {}).get("submitted", []))
    for c in cases:
        o = obs.get(c["id"])
        if second is not None and c["id"] in second:
            o = second[c["id"]]
        out.append((c, o, eval_case(m, c, o)))
    return out


def run(ctx):
    ctx.level = "proof"
    ctx.assumptions += [
        "Go int is 64 bits (amd64/arm64): header arithmetic never wraps; lengths/indices are unbounded Z in the model",
        "TCP/unix deliver the byte sequence written, in order; a UDP datagram arrives whole or not at all; "
        "websocket messages and HTTP bodies are delimited by fasthttp/websocket, net/http and fasthttp (not modelled)",
        "a websocket message shorter than 4 bytes: the bytes data[:4] reads beyond len(data) are taken to be zero "
        "(spare capacity of ReadMessage's buffer); either way nothing is delivered",
        "handlers run concurrently (go h.run): deliveries and answers are compared as multisets per case",
        "net/http never yields more body bytes than Content-Length (http_limited)",
        "hash/crc32.ChecksumIEEE = Lib/Crc32.crc32: validated on random inputs by this run, and proved to have the "
        "CRC-32 check value 0xCBF43926",
    ]
    import time
    t0 = time.time()
    ctx.prove()
    t1 = time.time()
    hv.build_harness("c12")
    hv.build_modelrun("c12")
    t2 = time.time()
    m = Model()
    try:
        # which receive loops does this tree have?  (a hint for waiting times only)
        probe = Gen(ctx.__class__(ctx.pid, ctx.tier, ctx.seed), m)
        probe.udp_case([(1, m.umake(20, 1) + b"SECRET-OF-CLIENT-ONE", b"SECRET-OF-CLIENT-ONE"),
                        (0, m.umake(20, 2) + b"hi", None)], "decl_gt")
        probe.http_case("http", 20, b"hi", "decl_gt")
        pobs, _ = run_all(probe.cases, timeout=120)
        repaired = set()
        if len((pobs.get(1) or {}).get("delivered", [0, 0])) == 1:
            repaired.add("udp")
        if len((pobs.get(2) or {}).get("delivered", [0])) == 0:
            repaired.add("http")
        cases = Gen(ctx, m, repaired).all()
        t3 = time.time()
        obs, crashes = run_all(cases, timeout=900 if ctx.tier == "quick" else 3000)
        t4 = time.time()
        ctx.note("phase_seconds", {"prove": round(t1 - t0, 1), "build": round(t2 - t1, 1), "generate+model": round(t3 - t2, 1),
                                   "execute": round(t4 - t3, 1)})
        for c, rc, err in crashes:
            full = next(x for x in cases if x["id"] == c["id"])
            ctx.report("%s:%s:%s:executor-died" % (c.get("t", "-"), c["fam"], c["kind"]),
                       "the executor process died (rc=%s) while running a %s/%s case on %s: %s"
                       % (rc, c["fam"], c["kind"], c.get("t"), err[-300:]),
                       {"case": strip(full) if len(json.dumps(strip(full))) < 200000 else {"id": c["id"], "fam": c["fam"], "kind": c["kind"]},
                        "stderr": err, "failing_input": True})
        results = judge(ctx, m, cases, obs)
        # cases that failed together with a timeout or an environment error get one more chance,
        # alone, before they count (no verdict may depend on scheduling luck)
        again = [c for c, o, v in results if (v.env or ((v.oracle or v.disagree) and (v.inconclusive or (o or {}).get("timeout"))))]
        flaky = 0
        if again:
            obs2, _ = run_all(again, timeout=900)
            second = {}
            for c in again:
                o2 = obs2.get(c["id"])
                v2 = eval_case(m, c, o2)
                if not v2.env:
                    second[c["id"]] = o2
                    if not (v2.oracle or v2.disagree):
                        flaky += 1
            results = judge(ctx, m, cases, obs, second)
        ctx.note("rerun_cases", len(again))
        ctx.note("rerun_then_fine", flaky)

        # Three receive sites have two proved models: the faithful one of the pinned code (for which
        # C12_datagram_exact / http_exact are refuted) and the repaired one (C12_*_fixed).  The run
        # decides, per site, which of the two the code in front of it follows; the theorems of that
        # variant are the ones that transfer.  A site that follows neither is a broken correspondence.
        variant = {}
        for site, sel in (("udp-server-receive", lambda c: c["fam"] == "raw_udp"),
                          ("udp-client-receive", lambda c: c["fam"] == "fake_udp"),
                          ("http-server-readAll", lambda c: c["fam"] == "raw_http" and c["t"] == "http")):
            group = [(c, o, v) for c, o, v in results if sel(c) and not v.env and v.disagree_fixed is not None]
            nf = sum(1 for _, _, v in group if v.disagree)
            nx = sum(1 for _, _, v in group if v.disagree_fixed)
            if nf == 0 or nf <= nx:
                variant[site] = "faithful (pinned code)" if nf == 0 else "neither (closest: faithful, %d/%d cases differ)" % (nf, len(group))
            else:
                variant[site] = "repaired (length check present)" if nx == 0 else "neither (closest: repaired, %d/%d cases differ)" % (nx, len(group))
                for _, _, v in group:
                    v.disagree = v.disagree_fixed
        ctx.note("model_variant_followed", variant)

        env = 0
        disagreements = []
        for c, o, v in results:
            fam, kind, t = c["fam"], c["kind"], c.get("t", "-")
            canon = "%s|%s|%s|%s" % (fam, t, kind, hashlib.sha1(json.dumps(strip(c), sort_keys=True).encode()).hexdigest())
            if v.env:
                env += 1
                ctx.bump("env_errors", "%s/%s" % (fam, t))
                continue
            ctx.count_case(canon, nontrivial=(fam != "calls" or kind != "sequential") and fam != "crc")
            ctx.bump("cases_by_family", "%s/%s" % (fam, t))
            ctx.bump("cases_by_kind", kind)
            if fam == "calls":
                ctx.bump("real_calls", t, len(c["_items"]))
            if fam == "crc":
                ctx.bump("crc_inputs_cross_checked", None, len(c["_data"]))
            if v.inconclusive and not (v.oracle or v.disagree):
                ctx.bump("inconclusive", v.inconclusive[0])
            if not v.oracle and not v.disagree and len(ctx.cov["samples"]) < 6 and kind in ("bitflip", "decl_gt", "cut", "lookalike", "many_one_write", "wire"):
                if not any(s.get("kind") == kind for s in ctx.cov["samples"]):
                    ctx.sample({"family": fam, "t": t, "kind": kind, "delivered": (o.get("delivered") or [])[:3],
                                "model": str(c.get("_mend", c.get("_mres", c.get("_exp", ""))))[:200]})
            # decide
            for cls, text in v.oracle:
                known = KNOWN_SHAPES.get((fam, kind))
                if known and not v.disagree and cls.startswith("delivered-from-inconsistent"):
                    key, what = known, KNOWN_WHAT[known] + " — e.g. " + text
                elif cls == "abandoned-request-not-exact":
                    site = {"tcp": "socket", "unix": "socket", "ws": "websocket"}.get(t, t)
                    key = "%s-client-abandoned-request-sent-from-callers-buffer" % site
                    what = ("rpc/%s client transport keeps the caller's request slice after Transport has returned "
                            "(context ended while the request was queued / being written): the bytes written later are "
                            "whatever the caller's buffer holds then — " % {"fasthttp": "http/fasthttp"}.get(site, site)) + text
                else:
                    key, what = "%s:%s:%s:%s" % (t, fam, kind, cls), text
                ctx.report(key, what, replay_of(c, o, v))
            if v.disagree and not v.oracle:
                disagreements.append((c, o, v))
        ctx.note("environment_inconclusive_cases", env)
        if env > max(20, len(cases) // 10):
            raise hv.EnvError("%d of %d cases hit environment errors" % (env, len(cases)))
        if disagreements:
            # the implementation left the model on cases where the property itself still holds
            fams = sorted({"%s/%s/%s" % (c.get("t", "-"), c["fam"], c["kind"]) for c, _, _ in disagreements})
            c, o, v = disagreements[0]
            if c["fam"] == "crc":
                key, what = "crc-oracle", "Lib/Crc32.crc32 and hash/crc32.ChecksumIEEE disagree: " + v.disagree[0]
            else:
                key = "correspondence:%s:%s:%s" % (c.get("t", "-"), c["fam"], c["kind"])
                what = ("Model/Frame.v no longer matches the transports (theorems C12_* not transferred): %s; families: %s"
                        % (v.disagree[0], ", ".join(fams[:12])))
            r = replay_of(c, o, v)
            r["failing_input"] = False
            r["correspondence"] = "Frame.v receive loops / header codecs vs rpc/{socket,udp,websocket,http}"
            r["disagreeing_cases"] = len(disagreements)
            ctx.report(key, what, r)
        agree = sum(1 for c, o, v in results if not v.env and not v.disagree)
        ctx.note("traces_validated_against_impl", agree)
        ctx.note("model_queries", m.n)
        ctx.note("single_bit_corruptions_exercised", {
            "socket_request_headers": sum(1 for c in cases if c["fam"] == "raw_stream" and c["kind"] == "bitflip"),
            "udp_request_headers": sum(1 for c in cases if c["fam"] == "raw_udp" and c["kind"] == "bitflip"),
            "socket_response_headers": sum(1 for c in cases if c["fam"] == "fake_stream" and c["kind"] == "bitflip"),
            "udp_response_headers": sum(1 for c in cases if c["fam"] == "fake_udp" and c["kind"] == "bitflip")})
        ctx.note("rule", "one case = one scenario on one transport (a batch of real calls, one raw stream/datagram sequence/"
                 "message sequence/HTTP request, or one real call against a scripted fake server); distinct by the full case "
                 "content; non-trivial = everything except the plain sequential call batches and the CRC cross-check, i.e. "
                 "cases with corrupted/inconsistent/cut/concatenated/dribbled frames, wire capture, multiplexed calls, or "
                 "boundary lengths through hand-made frames")
        ctx.note("exhaustive_note", "all 96 (socket) and 64 (UDP) single-bit header corruptions for each base header, both directions")
    finally:
        m.close()


def replay(ctx, path):
    r = json.load(open(path))
    hv.build_harness("c12")
    hv.build_modelrun("c12")
    c = r["case"]
    if any(isinstance(x, str) and x.startswith("(large") for x in c.values()):
        print("case too large to be stored: re-run ./check C12 with VERIF_SEED=%s" % r.get("seed"))
        return 2
    rc, obs, err = hv.run_harness("c12", [c], timeout=300)
    print(json.dumps(obs)[:4000])
    if not obs:
        print("executor died:", err[-500:])
        return 1
    o = obs[0]
    if c.get("op") == "abandoned":
        # how much of the request goes out before the peer stalls varies: judge by the property itself
        ok = set(o.get("submitted", [])) | {enc(b"warm-up")}
        foreign = [d for d in o.get("delivered", []) if d not in ok]
        print("handed to the service but never submitted:", foreign)
        return 1 if foreign else 0
    before = r.get("observed") or {}
    same = all(o.get(k) == before.get(k) for k in ("delivered", "calls") if k in before and k != "calls") and \
        [x.get("resp") for x in o.get("calls", [])] == [x.get("resp") for x in before.get("calls", [])]
    print("oracle at the time:", r.get("oracle"))
    print("same observable behaviour as recorded:", same)
    return 1 if same and (r.get("oracle") or not r.get("failing_input", True)) else 0
