"""C13 MaxRequestLength on every transport: proof (Props/C13.v) + correspondence of Model/Limit.v
with the real handlers and clients.

T1  the comparison sites (which quantity each handler holds against MaxRequestLength) are read off
    the sources of the tree under test with go/ast (harness op "sites") on every run; the model is
    run with THAT table, and Props/C13.v says for every table on which transports the property
    holds (C13_never_processed_iff_covered).
T3  real services (MaxRequestLength = limit, counting IO plugin via Service.Use, counting published
    function) on mock, net/http, fasthttp, tcp, unix, websocket, udp; real clients for truthful
    declarations; raw peers (hand-written HTTP, header bytes produced by the extracted model) for
    absent / smaller / larger declarations and dribbled writes; sizes limit-1, limit, limit+1,
    10*limit.  Observed: counters, body lengths seen, client error class, HTTP status, raw reply.
The property oracle below is written from the property text and does not consult the model."""
import json
import os
import hv

TRANSPORTS = ["mock", "http", "fasthttp", "tcp", "unix", "ws", "udp"]
UDP_MAX_BODY = 65499          # 65507 - 8: what one datagram can carry; the udp client panics beyond (C11)

# (file, func) of a comparison site -> transports it serves
SITE_OWNERS = {
    ("rpc/mock/handler.go", "Handler"): ["mock"],
    ("rpc/http/handler.go", "ServeHTTP"): ["http"],
    ("rpc/http/handler.go", "ServeFastHTTP"): ["fasthttp"],
    ("rpc/socket/handler.go", "receive"): ["tcp", "unix"],
    ("rpc/udp/handler.go", "receive"): ["udp"],
    ("rpc/websocket/handler.go", "receive"): ["ws"],
}

KNOWN_KEYS = {
    # (transport, declaration, failure) -> the precise key of a defect of the pinned tree
    ("http", "absent", "oversize-processed"): "http-chunked-body-bypasses-limit",
    ("fasthttp", "absent", "oversize-processed"): "fasthttp-chunked-body-bypasses-limit",
    ("udp", "smaller", "oversize-processed"): "udp-limit-on-declared-length",   # repaired in /repo by 5ee4f50
}


# ------------------------------------------------------------------ T1: comparison sites

def strip_conv(x):
    while True:
        for f in ("int64(", "int(", "int32(", "uint64(", "uint32(", "uint("):
            if x.startswith(f) and x.endswith(")"):
                x = x[len(f):-1]
                break
        else:
            return x


def classify_site(s):
    """-> (letter | None, reason).  B bytes in hand, D declared length field, C ContentLength,
    = the udp handler's  length != n-8  arm (declared must equal received)."""
    lhs, rhs, op = strip_conv(s["lhs"]), strip_conv(s["rhs"]), s["op"]
    if {lhs, rhs} == {"length", "n-8"}:
        if op == "!=" and s["before_dispatch"]:
            return "=", ""
        return None, "datagram consistency test is not  length != n-8  ahead of the dispatch"
    if "MaxRequestLength" in rhs and "MaxRequestLength" not in lhs:
        x = lhs
    elif "MaxRequestLength" in lhs and "MaxRequestLength" not in rhs:
        x = rhs
        op = {"<": ">", ">": "<", "<=": ">=", ">=": "<="}.get(op, op)
    else:
        return None, "cannot tell which operand is the limit"
    if op != ">":
        return None, "operator %s where the model has X > MaxRequestLength" % s["op"]
    if not s["before_dispatch"]:
        return None, "comparison placed after the dispatch to Service.Handle"
    if x in ("len(request)", "len(body)", "len(data)", "n-8", "len(buffer[8:n])", "len(ctx.Request.Body())"):
        return "B", ""
    if x == "length":
        return "D", ""
    if x in ("request.ContentLength", "ctx.Request.Header.ContentLength()"):
        return "C", ""
    return None, "unrecognised operand %s" % x


BENIGN_GUARDS = {
    # the arms a well-formed frame has already passed when it reaches the limit test
    "!(err!=nil)", "!(n<8)", "!(length==0&&index==-1&&!ok)", "!(length!=n-8)",
}
GET_TESTS = ('request.Method=="GET"', 'convert.ToUnsafeString(ctx.Request.Header.Method())=="GET"',
             'string(ctx.Request.Header.Method())=="GET"', 'ctx.IsGet()')
NOTGET_TESTS = ('request.Method!="GET"', 'convert.ToUnsafeString(ctx.Request.Header.Method())!="GET"')
CHUNKED_TESTS = ("request.ContentLength<0", "request.ContentLength==-1", "ctx.Request.Header.ContentLength()<0",
                 "ctx.Request.Header.ContentLength()==-1")
DECLARED_TESTS = ("request.ContentLength>=0", "ctx.Request.Header.ContentLength()>=0")


def guard_fn(g):
    """a path condition (source text) -> predicate over the class of a request (get, flag, chunked), or None
    when it is not one the model knows (then the site counts as unconditional and is listed as unresolved)"""
    neg = False
    while g.startswith("!(") and g.endswith(")"):
        g, neg = g[2:-1], not neg
    if g.startswith("!") and g[1:].isidentifier():
        g, neg = g[1:], not neg
    if g in GET_TESTS:
        f = lambda get, flag, chunked: get
    elif g in NOTGET_TESTS:
        f = lambda get, flag, chunked: not get
    elif g in CHUNKED_TESTS:
        f = lambda get, flag, chunked: chunked
    elif g in DECLARED_TESTS:
        f = lambda get, flag, chunked: not chunked
    elif g == "ok":
        f = lambda get, flag, chunked: not flag
    else:
        return None
    return (lambda get, flag, chunked: not f(get, flag, chunked)) if neg else f


class Sites:
    """for each transport the comparison sites with the path conditions under which they are evaluated;
    letters(t, get, flag, chunked) = the quantities compared on the path of that class of request"""

    def __init__(self):
        self.by_t = {t: [] for t in TRANSPORTS}

    def add(self, t, letter, guards):
        self.by_t[t].append((letter, guards))

    def letters(self, t, get=False, flag=False, chunked=False):
        out = ""
        for letter, guards in self.by_t[t]:
            if all(g(get, flag, chunked) for g in guards) and letter not in out:
                out += letter
        return out

    def class_dependent(self, t):
        return any(guards for _, guards in self.by_t[t])


def read_sites(ctx):
    rc, obs, err = hv.run_harness("c13", [{"id": 0, "op": "sites", "repo": hv.REPO}], timeout=120)
    if rc != 0 or not obs or obs[0].get("env"):
        raise hv.EnvError("cannot read the comparison sites: %s %s" % (err[-300:], obs[:1]))
    sites = Sites()
    unresolved = []
    seen_owner = set()
    has_consistency_arm = False
    for s in obs[0].get("sites") or []:
        owners = SITE_OWNERS.get((s["file"], s["func"]))
        if owners is None:
            unresolved.append(dict(s, reason="comparison in an unexpected function"))
            continue
        seen_owner.add((s["file"], s["func"]))
        letter, why = classify_site(s)
        if letter is None:
            unresolved.append(dict(s, reason=why))
            continue
        guards = []
        for g in s.get("guards") or []:
            if g in BENIGN_GUARDS:
                continue
            f = guard_fn(g)
            if f is None:
                unresolved.append(dict(s, reason="evaluated under a condition the model does not know: " + g))
            else:
                guards.append(f)
        if letter == "=":
            has_consistency_arm = True
            continue
        for t in owners:
            sites.add(t, letter, guards)
    for k, owners in SITE_OWNERS.items():
        if k not in seen_owner:
            unresolved.append({"file": k[0], "func": k[1], "reason": "no comparison with MaxRequestLength found"})
    # Model/Limit.v has the udp handler drop datagrams whose header disagrees with their size
    if not has_consistency_arm:
        unresolved.append({"file": "rpc/udp/handler.go", "func": "receive",
                           "reason": "the arm  case length != n-8  that Model/Limit.v mirrors is missing"})
    return sites, unresolved, obs[0].get("sites") or []


# ------------------------------------------------------------------ cases

def sizes_for(limit, cap=None):
    if limit <= 0:
        return [0, 1, 10]
    s = sorted({max(0, limit - 1), limit, limit + 1, 10 * limit if limit > 0 else 10})
    if cap is not None:
        s = sorted({min(x, cap) for x in s})
    return s


def smaller_choices(limit, a, thorough):
    c = [x for x in {0, limit - 1, limit, limit + 1, a - 1, a // 2} if 0 <= x < a]
    c.sort()
    if thorough or len(c) <= 2:
        return c
    # the two that decide differently: the largest one within the limit, the largest one above it
    within = [x for x in c if x <= limit]
    above = [x for x in c if x > limit]
    out = []
    if within:
        out.append(within[-1])
    if above:
        out.append(above[-1])
    return out or c[:1]


def larger_choices(limit, a, thorough, cap=None):
    c = [x for x in {a + 1, limit, limit + 1, 10 * limit, 2 * a + 2} if x > a]
    if cap is not None:
        c = [x for x in c if x <= cap]
    c.sort()
    if thorough or len(c) <= 2:
        return c
    within = [x for x in c if x <= limit]
    above = [x for x in c if x > limit]
    out = []
    if within:
        out.append(within[0])
    if above:
        out.append(above[0])
    return out or c[:1]


def gen_cases(ctx):
    thorough = ctx.tier != "quick"
    limits = [-1, 0, 1, 10, 100, 4096, 65536]
    if thorough:
        limits = [-7, -1, 0, 1, 2, 10, 100, 255, 256, 4096, 65535, 65536, 300000]
        limits += sorted({ctx.rng.randint(3, 70000) for _ in range(6)})
    cases = []

    def add(**kw):
        kw["id"] = len(cases) + 1
        cases.append(kw)

    for t in TRANSPORTS:
        for limit in limits:
            cap = UDP_MAX_BODY if t == "udp" else None
            if t == "udp" and limit > 60000:
                limit = 60000
            szs = sizes_for(limit, cap)
            if thorough:
                szs = sorted(set(szs) | {min(x, cap) if cap else x for x in
                                         (ctx.rng.randint(0, max(2, 2 * limit + 2)), ctx.rng.randint(0, max(12, 12 * limit + 12)))})
            for a in szs:
                # the real client: truthful by construction
                add(op="client", t=t, limit=limit, decl="truthful", actual=a, declared=a, via="request")
                add(op="client", t=t, limit=limit, decl="truthful", actual=a, declared=a, via="invoke")
                if t == "mock":
                    continue
                add(op="raw", t=t, limit=limit, decl="truthful", actual=a, declared=a)
                if t in ("http", "fasthttp", "tcp", "unix"):
                    add(op="raw", t=t, limit=limit, decl="split", actual=a, declared=a)
                if t in ("http", "fasthttp"):
                    add(op="raw", t=t, limit=limit, decl="absent", actual=a, declared=-1)
                    # Content-Length AND Transfer-Encoding: chunked
                    add(op="raw", t=t, limit=limit, decl="absent", actual=a, declared=min(a, max(0, limit - 1)),
                        extra="cl+chunked")
                if t == "ws" and a + 4 >= 3:
                    add(op="raw", t=t, limit=limit, decl="absent", actual=a, declared=-1)
                for d in smaller_choices(limit, a, thorough):
                    add(op="raw", t=t, limit=limit, decl="smaller", actual=a, declared=d)
                for d in larger_choices(limit, a, thorough, cap):
                    add(op="raw", t=t, limit=limit, decl="larger", actual=a, declared=d)
    # request methods other than POST on the HTTP servers (the handlers accept any; GET is singled out in the code)
    mlimits = [10, 4096] if not thorough else limits
    for t in ("http", "fasthttp"):
        for limit in mlimits:
            for a in sizes_for(limit):
                for m in ("GET", "PUT", "DELETE", "PATCH", "OPTIONS", "HEAD"):
                    add(op="raw", t=t, limit=limit, decl="truthful", actual=a, declared=a, method=m)
                    add(op="raw", t=t, limit=limit, decl="absent", actual=a, declared=-1, method=m)
                add(op="raw", t=t, limit=limit, decl="absent", actual=a, declared=min(a, max(0, limit - 1)),
                    extra="cl+chunked", method="GET")
    # hand-made frames whose index word has its top bit set (the stock clients never send one): same limit
    for t in ("tcp", "unix", "udp", "ws"):
        for limit in limits:
            cap = UDP_MAX_BODY if t == "udp" else None
            if t == "udp" and limit > 60000:
                limit = 60000
            for a in sizes_for(limit, cap):
                add(op="raw", t=t, limit=limit, decl="truthful", actual=a, declared=a, flag=True)
                if a > limit > 0 and t in ("tcp", "unix"):
                    # the refused frame is followed, in the same write, by a frame whose body carries complete small
                    # requests at the offsets where a reader that gulps the refused body could stop
                    add(op="raw", t=t, limit=limit, decl="truthful", actual=a, declared=a, trail=True)
                if t in ("tcp", "unix"):
                    add(op="raw", t=t, limit=limit, decl="split", actual=a, declared=a, flag=True)
    # tcp / unix: announcements over the whole 31-bit range of the length field (around every power of two
    # from 2^20 up, and 2^k plus a remainder that by itself would be within the limit), with only the remainder
    # really sent: whatever a reader makes of the high bits, a header announcing more than the limit is refused
    for t in ("tcp", "unix"):
        for limit in ([10, 64, 4096] if not thorough else [0, 1, 10, 64, 4096, 65536]):
            for k in range(20, 31):
                p2 = 1 << k
                rems = [24, limit] if not thorough else [0, 1, 24, max(0, limit - 1), limit, ctx.rng.randint(0, max(1, limit))]
                for r in sorted(set(rems)):
                    add(op="raw", t=t, limit=limit, decl="larger", actual=r, declared=p2 + r, huge=True)
                add(op="raw", t=t, limit=limit, decl="larger", actual=min(24, max(limit, 0)), declared=p2 - 1, huge=True)
                if thorough:
                    j = ctx.rng.randint(20, 30)
                    add(op="raw", t=t, limit=limit, decl="larger", actual=24, declared=min((1 << 31) - 1, p2 + (1 << j) + 24), huge=True)
            add(op="raw", t=t, limit=limit, decl="larger", actual=24, declared=(1 << 31) - 1, huge=True)
    # the limit is configured after the service has been bound
    for t in TRANSPORTS:
        for limit in ([0, 10, 4096] if not thorough else [-1, 0, 1, 10, 100, 4096, 60000]):
            cap = UDP_MAX_BODY if t == "udp" else None
            for a in sizes_for(limit, cap):
                add(op="client", t=t, limit=limit, decl="truthful", actual=a, declared=a, via="request", late=True)
                if t != "mock":
                    add(op="raw", t=t, limit=limit, decl="truthful", actual=a, declared=a, late=True)
                if t in ("http", "fasthttp", "ws"):
                    add(op="raw", t=t, limit=limit, decl="absent", actual=a, declared=-1, late=True)
    # dedupe (the udp cap folds limits and sizes together)
    seen, out = set(), []
    for c in cases:
        k = json.dumps({x: c[x] for x in c if x != "id"}, sort_keys=True)
        if k not in seen:
            seen.add(k)
            c["id"] = len(out) + 1
            out.append(c)
    return out


INDEX = 7     # the request index the raw peers put in their headers


def attach_headers(cases):
    """frame headers for the raw peers come from the extracted model (Frame.sock_make_header ...)"""
    lines, who = [], []
    for c in cases:
        if c["op"] != "raw":
            continue
        if c["t"] in ("tcp", "unix"):
            lines.append("H sock %d %d" % (c["declared"], INDEX + ((1 << 31) if c.get("flag") else 0)))
        elif c["t"] == "udp":
            lines.append("H udp %d %d" % (c["declared"], INDEX + ((1 << 15) if c.get("flag") else 0)))
        elif c["t"] == "ws":
            lines.append("H ws %d" % (INDEX + ((1 << 31) if c.get("flag") else 0)))
        else:
            continue
        who.append(c)
    out = hv.run_model("c13", lines) if lines else []
    for c, h in zip(who, out):
        c["hdr"] = h


def model_decl(c):
    """the [decl] argument of the model for this case"""
    if c["t"] == "mock":
        return "-"
    if c["decl"] == "absent":
        return "-"
    if c["t"] == "ws" and c["decl"] == "truthful":
        return str(c["actual"])
    return str(c["declared"])


# ------------------------------------------------------------------ observation -> projected observable

def decode_reply(c, o, decoded):
    """what a client of this transport makes of the reply the server actually sent (decoded by the model's
    client code for frames, by the status switch for HTTP)"""
    if c["op"] == "client":
        return {"ok": "result", "too-large": "too-large"}.get(o.get("class"), "other:" + str(o.get("class")))
    return decoded.get(c["id"], "nothing")


HONEST = ("truthful", "split", "absent")


def fn_part(c, fn):
    """whether the function ran is compared only for bodies delivered as sent: what is left of a call
    after truncation or padding may or may not still decode as a call"""
    return "fn=%d" % fn if c["decl"] in HONEST else "fn=*"


def observed_projection(c, o, decoded):
    io = o.get("io", 0)
    if io == 0:
        head = "not-processed"
    elif io == 1:
        head = "P:%d" % o["io_lens"][0]
    else:
        head = "processed-x%d:%s" % (io, ",".join(map(str, o["io_lens"])))
    reply = decode_reply(c, o, decoded)
    if io >= 1 and c["decl"] not in HONEST:
        # bytes after a frame that announced less than was sent are garbage to the server: it hangs up,
        # and whether the answer to the frame before still gets out is a race that is not this property's
        reply = "*"
    return "%s %s client=%s" % (head, fn_part(c, o.get("fn", 0)), reply)


def model_projection(m, c, o):
    """m: parsed model answer.  The model's [valid] input was the harness's statement about the body
    as SENT; a truncated body is no call any more."""
    v = m["v"]
    if v.startswith("P:"):
        n = int(v[2:])
        fn = 1 if (o.get("valid") and n >= o.get("sent", -1)) else 0
        return "P:%d %s client=%s" % (n, fn_part(c, fn), "result" if c["decl"] in HONEST else "*")
    return "not-processed %s client=%s" % (fn_part(c, 0), m["client"])


def parse_model(line):
    return dict(kv.split("=", 1) for kv in line.split(" "))


# ------------------------------------------------------------------ the property's own oracle

def framed_len(c):
    """the request body as delimited by the carrier (independent of Model/Limit.v): None = no complete request"""
    t, d, a, dl = c["t"], c["decl"], c["actual"], c["declared"]
    if t == "mock" or d in ("truthful", "split"):
        return a
    if d == "absent":
        return a                      # all chunks / all fragments
    if t == "udp":
        return a                      # a datagram is the request, whatever its header says
    # byte streams: the announcement delimits; a request announced longer than what arrives is incomplete
    return dl if dl <= a else None


CONNECTION_TROUBLE = ("reset by peer", "broken pipe", "EOF", "closed", "use of closed")


def property_oracle(c, o, decoded):
    """-> list of (failure-kind, text).  Written from the property text:
       body > limit  => no plugin, no function ran, and the caller got the request-too-large error;
       body <= limit (and the sender did not lie about the length) => processed normally;
       nothing the service ever sees is above the limit."""
    fails = []
    limit = c["limit"]
    io, fn = o.get("io", 0), o.get("fn", 0)
    n = framed_len(c)
    reply = decode_reply(c, o, decoded)
    # a websocket message whose index word has the flag bit set is an invalid frame whatever its size
    honest = c["decl"] in HONEST and not (c["t"] == "ws" and c.get("flag"))
    if c["t"] in ("tcp", "unix") and c["op"] == "raw" and c["declared"] > limit and (io != 0 or fn != 0):
        # a stream frame is delimited by its header: one that announces more than the limit is refused before
        # anything of it is read, whatever really follows
        fails.append(("declared-oversize-processed",
                      "header announcing %d bytes (0x%x) with MaxRequestLength=%d, %d bytes sent: IO plugin ran %d time(s) on %s bytes, "
                      "function ran %d time(s)" % (c["declared"], c["declared"], limit, c["actual"], io, o.get("io_lens"), fn)))
        return fails
    saw_oversize = [l for l in o.get("io_lens", []) if l > limit]
    if n is None or n <= limit:
        if saw_oversize:
            fails.append(("oversize-body-reached-plugins",
                          "the IO plugin saw a body of %d bytes, MaxRequestLength=%d" % (saw_oversize[0], limit)))
    if n is None:
        return fails
    if n > limit:
        if io != 0 or fn != 0:
            fails.append(("oversize-processed",
                          "request body of %d bytes (%s length declaration%s) with MaxRequestLength=%d: IO plugin ran %d time(s) "
                          "on %s bytes, function ran %d time(s)" %
                          (n, c["decl"], "" if c["decl"] in ("truthful", "split", "absent") else " %d" % c["declared"],
                           limit, io, o.get("io_lens"), fn)))
        elif reply != "too-large":
            # anything but an answer that was received and decoded to something else: the connection went away
            msg = (o.get("msg") or "")
            if c["op"] == "client":
                trouble = o.get("class") == "error" and "invalid response" not in msg.lower()
            else:
                trouble = reply == "nothing"
            if honest:
                kind = "reject-lost-to-connection-teardown" if (trouble and c["t"] in ("tcp", "unix")) else "no-too-large-error"
                fails.append((kind, "request body of %d bytes refused (MaxRequestLength=%d) but the caller did not get the "
                                    "request-too-large error: %s %s" % (n, limit, reply, (o.get("msg") or "")[:120])))
            elif reply not in ("nothing",) and not reply.startswith("http-error"):
                fails.append(("no-too-large-error", "misdeclared oversize request answered with %s" % reply))
    elif honest:
        if io != 1 or o.get("io_lens") != [n]:
            fails.append(("within-limit-refused" if io == 0 else "within-limit-mangled",
                          "request body of %d bytes <= MaxRequestLength=%d (%s declaration): IO plugin ran %d time(s) on %s; caller: %s %s"
                          % (n, limit, c["decl"], io, o.get("io_lens"), reply, (o.get("msg") or "")[:100])))
        elif o.get("valid") and (fn != 1 or o.get("fn_lens") != [o.get("arg_len")]):
            fails.append(("within-limit-function-not-run", "well-formed call of %d bytes <= limit %d: function ran %d time(s)" % (n, limit, fn)))
        elif reply != "result":
            fails.append(("within-limit-no-result", "request of %d bytes <= limit %d was processed but the caller got %s %s"
                          % (n, limit, reply, (o.get("msg") or "")[:100])))
        elif o.get("valid") and c["op"] == "client" and c.get("via") == "invoke" and o.get("result") != str(o.get("arg_len")):
            fails.append(("within-limit-wrong-result", "echo returned %r for an argument of %d bytes" % (o.get("result"), o.get("arg_len"))))
    return fails


def key_for(c, kind):
    if c["limit"] <= 0 and kind in ("oversize-processed", "declared-oversize-processed", "oversize-body-reached-plugins"):
        # MaxRequestLength = 0 admits only the empty request, a negative one nothing: one defect whatever the
        # transport and declaration it shows on
        return "limit-%s-not-enforced" % ("zero" if c["limit"] == 0 else "negative")
    k = KNOWN_KEYS.get((c["t"], c["decl"], kind))
    if k and not (c.get("method") or c.get("flag") or c.get("late")):
        return k
    if kind == "reject-lost-to-connection-teardown":
        return "socket-reject-then-close-loses-too-large-error"
    q = c["t"]
    if c.get("method") and c["method"] != "POST":
        q += "-" + c["method"]
    if c.get("flag"):
        q += "-flagged-index"
    if c.get("late"):
        q += "-limit-set-after-bind"
    if c.get("huge"):
        q += "-announced-beyond-2^20"
    return "%s-%s-%s" % (q, c["decl"], kind)


# ------------------------------------------------------------------ running

def run_cases(cases, nproc):
    """-> obs by id; cases hit by environment trouble are retried once in fresh executors"""
    rc, obs, err = hv.run_harness_parallel("c13", cases, nproc=nproc, timeout=1500)
    byid = {o["id"]: o for o in obs if "id" in o and not o.get("fatal")}
    retry = [c for c in cases if c["id"] not in byid or byid[c["id"]].get("env")]
    if retry:
        rc2, obs2, err2 = hv.run_harness_parallel("c13", retry, nproc=max(1, nproc // 2), timeout=1500)
        for o in obs2:
            if "id" in o and not o.get("fatal") and not o.get("env"):
                byid[o["id"]] = o
        err += err2
    return byid, err


def decode_replies(cases, byid):
    """raw peers: feed the bytes the server really sent to the model's client-side receive code"""
    lines, who = [], []
    for c in cases:
        o = byid.get(c["id"])
        if not o or c["op"] != "raw":
            continue
        if c["t"] in ("http", "fasthttp"):
            if o.get("status"):
                lines.append("D http %d" % o["status"])
                who.append(c["id"])
        elif o.get("rx"):
            lines.append("D %s %s" % ({"tcp": "sock", "unix": "sock", "udp": "udp", "ws": "ws"}[c["t"]], o["rx"]))
            who.append(c["id"])
    out = hv.run_model("c13", lines) if lines else []
    return dict(zip(who, out))


def refusal(o, reply):
    return o.get("io", 0) == 0 and o.get("fn", 0) == 0 and reply != "result"


def reject_race_probe(ctx, table):
    """tcp/unix: the server answers an oversize header and closes while the client is still writing the
    body (the client writes header and body separately, so even a 2-byte body does it).  Whether the caller
    then gets ErrRequestEntityTooLarge or a connection error is a race in the code under test.  Each call
    loses it with a probability of roughly one half for large bodies: the probe keeps calling (up to 416 calls,
    large and small bodies, both transports) until the first loss, so a run without any is practically impossible
    while the defect is there; and if none occurs nothing is reported."""
    rounds = []
    nid = [900000]

    def batch(n, t, limit, size):
        out = []
        for _ in range(n):
            nid[0] += 1
            out.append({"id": nid[0], "op": "client", "t": t, "limit": limit, "decl": "truthful",
                        "actual": size, "declared": size, "via": "request"})
        return out

    # large bodies lose the race about every second time (the write is still going on when the server hangs
    # up), tiny ones only now and then (header and body are separate writes)
    plan = [batch(8, "unix", 65536, 2 << 20) + batch(8, "tcp", 65536, 2 << 20),
            batch(20, "unix", 65536, 4 << 20) + batch(20, "tcp", 65536, 4 << 20),
            batch(60, "unix", 10, 100) + batch(60, "tcp", 10, 100),
            batch(20, "unix", 4096, 8 << 20) + batch(20, "tcp", 4096, 8 << 20),
            batch(100, "unix", 1, 2) + batch(100, "tcp", 1, 2)]
    calls = got = 0
    lost, lost_case = [], None
    for cases in plan:
        rc, obs, err = hv.run_harness("c13", cases, timeout=900)
        for o in obs:
            if o.get("env") or o.get("fatal"):
                continue
            calls += 1
            if o.get("class") == "too-large":
                got += 1
            elif o.get("class") == "error" and o.get("io", 0) == 0 and "invalid response" not in (o.get("msg") or "").lower():
                lost.append(o)
        if lost:
            lost_case = next(x for x in cases if x["id"] == lost[0]["id"])
            break
    ctx.note("reject_race_probe", {"calls": calls, "too_large": got, "connection_error_instead": len(lost)})
    if lost:
        c = lost_case
        ctx.report("socket-reject-then-close-loses-too-large-error",
                   "%s: a %d-byte call against MaxRequestLength=%d is refused, but %d of %d callers got '%s' instead of "
                   "ErrRequestEntityTooLarge: the handler closes the connection right after the error frame while the "
                   "client is still writing the body (timing-dependent)"
                   % (c["t"], c["actual"], c["limit"], len(lost), calls, (lost[0].get("msg") or "")[:80]),
                   {"case": c, "observed": lost[0], "failing_input": True, "timing_dependent": True,
                    "occurrences": len(lost), "calls": calls})


def run_corpus(ctx):
    """corpus/C13-*.json: cases that failed once (fixed defects); they run first and must pass the oracle"""
    d = os.path.join(hv.V, "corpus")
    files = sorted(f for f in os.listdir(d) if f.startswith("C13-") and f.endswith(".json")) if os.path.isdir(d) else []
    cases = []
    for k, f in enumerate(files):
        rec = json.load(open(os.path.join(d, f)))
        if rec.get("status") == "known":
            continue            # the replay of a known, timing-dependent finding: reject_race_probe looks for it
        c = dict(rec["case"])
        c["id"] = 800000 + k
        c["_file"] = f
        cases.append(c)
    if not cases:
        return
    send = [{k: v for k, v in c.items() if k != "_file"} for c in cases]
    attach_headers(send)
    rc, obs, err = hv.run_harness("c13", send, timeout=300)
    byid = {o["id"]: o for o in obs if "id" in o}
    decoded = decode_replies(send, byid)
    passed = 0
    for c, sc in zip(cases, send):
        o = byid.get(c["id"])
        if o is None or o.get("env"):
            ctx.bump("env_inconclusive")
            continue
        fails = property_oracle(sc, o, decoded)
        for kind, text in fails:
            ctx.report(key_for(sc, kind), "corpus case %s fails again: %s %s" % (c["_file"], sc["t"], text),
                       {"case": sc, "observed": o, "corpus": c["_file"], "failing_input": True})
        if not fails:
            passed += 1
            ctx.count_case("corpus|" + c["_file"])
    ctx.note("corpus_cases", len(cases))
    ctx.note("corpus_passed", passed)


def run(ctx):
    ctx.level = "proof"
    ctx.assumptions += [
        "the layer below the handlers delimits requests as Model/Limit.v [framed] says: net/http and fasthttp hand over "
        "Content-Length bytes or all chunks, the websocket library one assembled message, the kernel one datagram",
        "fasthttp reads the whole body before calling the handler and never calls it for a body that ends early (library behaviour, observed)",
        "Go int is 64 bits: no length or limit arithmetic wraps",
        "server-side MaxRequestBodySize of fasthttp (64 MiB in the harness) is above every size used",
    ]
    ctx.prove()
    hv.build_harness("c13")
    hv.build_modelrun("c13")

    # ---- T1
    sites, unresolved, raw_sites = read_sites(ctx)
    table = {t: sites.letters(t) for t in TRANSPORTS}       # the class of a POST / stock frame announcing its length
    classes = [(g, f, ch) for g in (False, True) for f in (False, True) for ch in (False, True)]
    ctx.note("limit_sites_by_class", {t: {"%s%s%s" % ("GET," if g else "", "flag," if f else "", "chunked" if ch else "declared"):
                                          sites.letters(t, g, f, ch) or "-" for g, f, ch in classes}
                                      for t in TRANSPORTS if sites.class_dependent(t)} or "no site depends on the class of the request")
    both = hv.run_model("c13", ["T"])[0].split(" | ")
    pinned = dict(kv.split("=") for kv in both[0].split(" "))
    original = dict(kv.split("=") for kv in both[1].split(" "))
    ctx.note("limit_sites", {t: table[t] or "-" for t in TRANSPORTS})
    ctx.note("limit_sites_source", [{k: s.get(k) for k in ("file", "func", "lhs", "op", "rhs", "before_dispatch", "guards")} for s in raw_sites])
    ctx.note("limit_sites_equal_pinned_table", {t: sorted(table[t]) == sorted(pinned[t].replace("-", "")) for t in TRANSPORTS})
    ctx.note("limit_sites_equal_original_prefix_table", {t: sorted(table[t]) == sorted(original[t].replace("-", "")) for t in TRANSPORTS})
    if unresolved:
        ctx.note("limit_sites_unresolved", unresolved)

    # ---- corpus first
    run_corpus(ctx)

    # ---- T3
    cases = gen_cases(ctx)
    attach_headers(cases)
    byid, err = run_cases(cases, nproc=6)
    decoded = decode_replies(cases, byid)
    todo = [c for c in cases if c["id"] in byid and not byid[c["id"]].get("env")]
    dead = [c for c in cases if c["id"] not in byid]
    env_lost = len(cases) - len(todo) - len(dead)
    if dead:
        # the executor died on these twice (a panic on a goroutine of the code under test kills the process)
        ctx.report("executor-died:%s-%s" % (dead[0]["t"], dead[0]["decl"]),
                   "the executor process died while running %d case(s), first %s: %s" % (len(dead), dead[0], err[-400:]),
                   {"case": dead[0], "stderr": err[-2000:], "failing_input": True})
    def cls(c):
        return (c.get("method") == "GET", bool(c.get("flag")), model_decl(c) == "-")

    lines = ["A %s %s %d %d %d %s %d %d" % (c["t"], sites.letters(c["t"], *cls(c)) or "-", cls(c)[0], cls(c)[1], c["limit"],
                                            model_decl(c), c["actual"], 1 if byid[c["id"]].get("valid") else 0) for c in todo]
    answers = hv.run_model("c13", lines)
    agree = by_refusal = inconclusive = agree_race = 0
    disagreements = []
    covered = {}
    for c, line in zip(todo, answers):
        o = byid[c["id"]]
        m = parse_model(line)
        covered[c["t"]] = "0" if (m["covers"] == "0" or covered.get(c["t"]) == "0") else "1"
        seen = observed_projection(c, o, decoded)
        want = model_projection(m, c, o)
        over = (m["framed"] != "-" and int(m["framed"]) > c["limit"])
        canon = "%s|%d|%s|%d|%d|%s|%s|%s|%s|%s" % (c["t"], c["limit"], c["decl"], c["actual"], c["declared"], c["op"],
                                                    c.get("via", c.get("extra", "")), c.get("method", ""), c.get("flag", ""), str(c.get("late", "")) + str(c.get("huge", "")))
        if c.get("method"):
            ctx.bump("by_method", c["method"])
        if c.get("flag"):
            ctx.bump("flagged_index_frames")
        if c.get("late"):
            ctx.bump("limit_set_after_bind")
        if c.get("huge"):
            ctx.bump("announced_beyond_2^20")
        ctx.bump("by_limit_sign", "negative" if c["limit"] < 0 else "zero" if c["limit"] == 0 else "positive")
        ctx.count_case(canon, nontrivial=(c["actual"] > c["limit"] or c["declared"] > c["limit"]))
        ctx.bump("by_transport", c["t"])
        ctx.bump("by_declaration", c["decl"])
        ctx.bump("by_model_verdict", m["v"].split(":")[0])
        if o.get("class") == "noreply" and c["t"] == "udp" and o.get("io", 0) == 0 and m["v"] not in ("STARVE", "MALFORMED"):
            # three datagrams without effect and without answer: a lost datagram says nothing
            if m["truthful"] == "1":
                inconclusive += 1
                continue
        race_branch = (m["alt"] != m["client"] and c["decl"] in HONEST and o.get("io", 0) == 0 and o.get("fn", 0) == 0
                       and decode_reply(c, o, decoded) in ("other:error", "nothing"))
        if race_branch:
            # Limit.caller_outcome ... TeardownFirst: the model allows it, the property does not (oracle below)
            agree_race += 1
        elif seen == want:
            agree += 1
            if len(ctx.cov["samples"]) < 6 and (over or c["decl"] not in ("truthful",)) and c["id"] % 37 == 0:
                ctx.sample({"case": {k: c[k] for k in c if k != "hdr"}, "observed": seen, "model": line})
        elif m["truthful"] == "0" and refusal(o, decode_reply(c, o, decoded)):
            # a request whose sender misstates the length may also simply be refused as malformed
            by_refusal += 1
        elif m["framed"] == "-" and o.get("io", 0) <= 1 and all(l <= c["limit"] for l in o.get("io_lens", [])):
            # an incomplete request (announced longer than what arrives): whether its padded remains are
            # run is C12's subject, not this property's
            by_refusal += 1
        else:
            disagreements.append((c, o, seen, want, line))
    ctx.note("traces_validated_against_impl", agree + by_refusal + agree_race)
    ctx.note("agree_on_teardown_race_branch", agree_race)
    ctx.note("agree_exact", agree)
    ctx.note("agree_by_refusal_of_malformed_or_incomplete", by_refusal)
    ctx.note("inconclusive_lost_datagram", inconclusive)
    ctx.note("env_inconclusive", env_lost)
    ctx.note("cases", len(cases))
    ctx.note("covers_by_transport", covered)
    ctx.note("theorems_in_force", {t: ("C13_never_processed_pinned / C13_never_processed (full)" if covered.get(t) == "1" else
                                       "NONE: the handler's sites do not cover the request body (C13_never_processed_iff_covered says the "
                                       "property is false of this table)") for t in TRANSPORTS})
    ctx.note("extra_families", "HTTP methods GET PUT DELETE PATCH OPTIONS HEAD with declared and chunked bodies (and GET chunked+Content-Length); "
             "raw tcp/unix/udp/websocket frames whose index word has its top bit set (valid checksum); MaxRequestLength set after Bind")
    ctx.note("rule", "transports x limits %s x sizes {limit-1, limit, limit+1, 10*limit} x declarations {truthful (real client via "
             "Request and via Invoke, raw peer), split writes, absent (chunked / fragmented, also chunked+Content-Length), smaller, "
             "larger}; non-trivial = the body sent or the length declared exceeds the limit; distinct by "
             "(transport, limit, declaration, sent, declared, peer)" % ("of the quick tier" if ctx.tier == "quick" else "of the thorough tier"))

    # ---- decide
    reported = set()
    reported_base = set()

    def report_fail(c, o, kind, text, seen=None, want=None, line=None):
        key = key_for(c, kind)
        base = (c["t"], c["decl"], kind)
        qualified = bool(c.get("method") or c.get("flag") or c.get("late") or c.get("huge"))
        if key in reported or (qualified and base in reported_base):
            return      # one key per defect: a failure that shows with a plain request is not repeated per method / flag
        reported.add(key)
        if not qualified:
            reported_base.add(base)
        ctx.report(key, "%s %s" % (c["t"], text),
                   {"case": {k: c[k] for k in c}, "observed": o, "model": line, "observed_projection": seen,
                    "model_projection": want, "failing_input": True})

    unexplained = []
    for c, o, seen, want, line in disagreements:
        fails = property_oracle(c, o, decoded)
        for kind, text in fails:
            report_fail(c, o, kind, text, seen, want, line)
        if not fails:
            unexplained.append((c, o, seen, want, line))
    if disagreements:
        ctx.note("disagreeing_cases", len(disagreements))
        ctx.note("first_disagreement", {"case": {k: disagreements[0][0][k] for k in disagreements[0][0] if k != "hdr"},
                                        "observed": disagreements[0][2], "model": disagreements[0][3]})
    # the property oracle on every case, agreeing or not (catches a model wrong the same way as the code)
    for c in todo:
        for kind, text in property_oracle(c, byid[c["id"]], decoded):
            report_fail(c, byid[c["id"]], kind, text)
    if unexplained and not ctx.violations:
        # the code diverged from the model on cases where the property itself still holds, and no case of the
        # whole run fails the property: the correspondence is what no longer checks
        c, o, seen, want, line = unexplained[0]
        ctx.report("correspondence", "Model/Limit.v no longer matches the handlers (theorems C13_* not transferred): "
                   "%s limit=%d %s sent=%d declared=%d: observed [%s], model [%s]"
                   % (c["t"], c["limit"], c["decl"], c["actual"], c["declared"], seen, want),
                   {"case": c, "observed": o, "model": line, "failing_input": False,
                    "correspondence": "Limit.admission/serve/client_decode vs rpc/*/handler.go + transport.go",
                    "disagreeing_cases": len(disagreements), "without_property_failure": len(unexplained)})
    # a site the extractor could not account for, and no failing input found by the run above
    if unresolved and not ctx.violations:
        ctx.report("limit-sites", "a comparison with MaxRequestLength is not one the model knows: %s" % json.dumps(unresolved)[:400],
                   {"unresolved": unresolved, "failing_input": False, "correspondence": "T1 limit_sites"})
    reject_race_probe(ctx, table)


def replay(ctx, path):
    r = json.load(open(path))
    hv.build_harness("c13")
    hv.build_modelrun("c13")
    c = r["case"]
    attach_headers([c])
    rc, obs, err = hv.run_harness("c13", [c])
    print(json.dumps(obs))
    if not obs:
        print("executor produced nothing:", err[-300:])
        return 3
    byid = {obs[0]["id"]: obs[0]}
    decoded = decode_replies([c], byid)
    fails = property_oracle(c, obs[0], decoded)
    print("property oracle:", fails or "holds on this case")
    return 1 if fails else 0
