"""C20 circuit breaker: proof (Props/C20.v) + correspondence of Model/Breaker.v with the real
plugin driven through Client.Use and a scripted downstream IO handler."""
import itertools
import json
import hv

HOUR = 3600 * 10**9


def gen_cases(ctx):
    quick = ctx.tier == "quick"
    maxlen = 6 if quick else 9
    cases = []
    cid = 0
    for th in range(0, 5):
        for rec in (1, HOUR):
            for mock in (False, True):
                for L in range(1, maxlen + 1):
                    for outs in itertools.product("OEP", repeat=L):
                        cid += 1
                        cases.append({"id": cid, "threshold": th, "recover_ns": rec, "mock": mock,
                                      "outs": "".join(outs)})
    # random long histories, larger thresholds, and (thorough) real elapsed time
    n_rand = 300 if quick else 3000
    for _ in range(n_rand):
        cid += 1
        th = ctx.rng.choice([0, 1, 2, 3, 5, 8, 13])
        L = ctx.rng.randint(10, 60)
        w = ctx.rng.choice([(1, 1, 1), (1, 3, 1), (3, 1, 1), (1, 1, 3)])
        outs = "".join(ctx.rng.choices("OEP", weights=w, k=L))
        cases.append({"id": cid, "threshold": th, "recover_ns": ctx.rng.choice([1, HOUR]),
                      "mock": ctx.rng.random() < 0.5, "outs": outs})
    # recovery times near the top of the int64 range ("never"): arithmetic on the deadline must not wrap
    for rec in (2**63 - 1, 2**62, (2**63 - 1) // 2 + 1):
        for th in (0, 1, 3):
            for outs in ("E" * (th + 1) + "OOEO", "P" * (th + 2) + "O", "EO" + "E" * (th + 1) + "OPO"):
                cid += 1
                cases.append({"id": cid, "threshold": th, "recover_ns": rec, "mock": cid % 2 == 0, "outs": outs})
    # thresholds at the top of the uint64 range ("never trip"): no arithmetic on the threshold may wrap
    for th in (2**64 - 1, 2**64 - 2, 2**63, 2**63 - 1, 2**32):
        for outs in ("EEEEEO", "PEPEPEE", "EOEEEEOE"):
            for rec in (HOUR, 2**63 - 1):
                cid += 1
                cases.append({"id": cid, "threshold": th, "recover_ns": rec, "mock": cid % 2 == 0, "outs": outs,
                              "family": "huge-threshold"})
    # callers whose own context is already cancelled or past its deadline when the forwarded call fails:
    # a failure is a failure whoever still waits for it (the downstream is scripted and ignores the context)
    for th in (0, 1, 2, 3):
        for kinds in ("c", "d", "cd", "bc"):
            for fail in ("E", "P", "EP"):
                trip = "".join(fail[i % len(fail)] for i in range(th + 1))
                outs = trip + "OO" + trip + "E" + "O"
                ctxs = "".join(kinds[i % len(kinds)] for i in range(len(outs)))
                cid += 1
                cases.append({"id": cid, "threshold": th, "recover_ns": HOUR, "mock": cid % 2 == 0, "outs": outs, "ctxs": ctxs,
                              "family": "done-context"})
    n_ctx = 40 if quick else 400
    for _ in range(n_ctx):
        cid += 1
        th = ctx.rng.choice([0, 1, 2, 3, 5])
        L = ctx.rng.randint(6, 30)
        outs = "".join(ctx.rng.choices("OEP", weights=(1, 3, 1), k=L))
        ctxs = "".join(ctx.rng.choices("bcd", weights=(2, 1, 1), k=L))
        cases.append({"id": cid, "threshold": th, "recover_ns": ctx.rng.choice([1, HOUR]), "mock": ctx.rng.random() < 0.5,
                      "outs": outs, "ctxs": ctxs, "family": "done-context"})
    # probes inside the open window must not postpone recovery: trip, probe at 0.6 x recover (rejected),
    # probe at 1.2 x recover after the LAST REAL failure (forwarded), and again after a failing trial call
    for th in (0, 1, 2):
        for tail in ("OO", "EOO", "PEO"):
            trip = "E" * (th + 1)
            outs = trip + "".join(x + x for x in tail)        # each tail outcome is scheduled twice: in-window probe, trial
            gaps = [0] * len(trip) + [70000] * (2 * len(tail))
            cid += 1
            cases.append({"id": cid, "threshold": th, "recover_ns": 120 * 10**6, "mock": th == 1,
                          "outs": outs, "gaps_us": gaps, "family": "probe-in-window"})
    n_timed = 12 if quick else 150
    for _ in range(n_timed):
        cid += 1
        th = ctx.rng.choice([0, 1, 2, 3])
        L = ctx.rng.randint(4, 14)
        outs = "".join(ctx.rng.choices("OEP", weights=(1, 2, 1), k=L))
        gaps = [ctx.rng.choice([0, 0, 0, 60000]) for _ in range(L)]
        cases.append({"id": cid, "threshold": th, "recover_ns": 30 * 10**6, "mock": ctx.rng.random() < 0.5,
                      "outs": outs, "gaps_us": gaps})
    return cases


def model_line(case, calls, flip):
    parts = [str(case["threshold"]), str(case["recover_ns"]), "1" if case["mock"] else "0"]
    for k, o in enumerate(case["outs"]):
        b, a = calls[k]["b"], calls[k]["a"]
        # two extreme placements of the two clock readings inside the observed window
        n0, n1 = (a, b) if flip else (b, a)
        parts += [str(n0), str(n1), o]
    return " ".join(parts)


def property_oracle(case, calls):
    """The property text itself, evaluated on the observed behaviour (only the parts that do
    not depend on the exact clock: recover = 1 ns means 'always elapsed', 1 h 'never')."""
    th, rec = case["threshold"], case["recover_ns"]
    consecutive = 0
    lastfail = None
    for k, o in enumerate(case["outs"]):
        r, inv = calls[k]["r"], calls[k]["inv"]
        if r in "BM":
            if inv != 0:
                return "call %d rejected but downstream was invoked" % k
            if (r == "M") != case["mock"]:
                return "call %d: mock service used=%s configured=%s" % (k, r == "M", case["mock"])
        elif r in "OEP":
            if inv != 1:
                return "call %d forwarded but downstream invoked %d times" % (k, inv)
            if r != o:
                return "call %d: downstream outcome %s reported to the caller as %s" % (k, o, r)
        else:
            return "call %d: unclassifiable result %s" % (k, calls[k].get("msg"))
        if rec == 1:
            if r in "BM":
                return "call %d rejected although the recovery time (1ns) had elapsed" % k
        elif rec >= HOUR:
            should_open = consecutive > th
            if should_open and r not in "BM":
                return "call %d forwarded after %d consecutive failures (threshold %d) within the recovery time" % (k, consecutive, th)
            if not should_open and r in "BM":
                return "call %d rejected after only %d consecutive failures (threshold %d)" % (k, consecutive, th)
        else:
            # finite recovery time: decided only where the observed clock windows leave no doubt
            if consecutive > th and lastfail is not None:
                lo = calls[k]["b"] - lastfail[1]      # least time elapsed since the last real failure
                hi = calls[k]["a"] - lastfail[0]      # most
                if lo > rec and r in "BM":
                    return "call %d rejected although more than the recovery time (%d ns) had passed since the last failure of a forwarded call" % (k, rec)
                if hi < rec and r not in "BM":
                    return "call %d forwarded after %d consecutive failures (threshold %d) within the recovery time" % (k, consecutive, th)
            if consecutive <= th and r in "BM":
                return "call %d rejected after only %d consecutive failures (threshold %d)" % (k, consecutive, th)
        if r in "OEP" and consecutive > th:
            consecutive = th >> 1                     # trial call of the half-open state: the count restarts at half the threshold
        if r in "EP":
            consecutive += 1
            lastfail = (calls[k]["b"], calls[k]["a"])
        elif r == "O":
            consecutive = 0
    return None


RECOVER_C = 250 * 10**6      # concurrent scenarios: recovery time 250 ms, sleeps 350 ms
SLEEP_C = 350000


def gen_scripts(ctx):
    n = 40 if ctx.tier == "quick" else 400
    scripts = []
    # directed family: a call forwarded while closed ends (late) after the breaker has been tripped by others
    did = 0
    for th in (0, 1, 2, 3):
        for late in "EPO":
            for trip in "EP":
                for mock in (False, True):
                    steps = [["start", 0, late]] + [["probe", trip] for _ in range(th + 1)] + \
                            [["probe", "O"], ["sleep", SLEEP_C], ["release", 0], ["probe", "O"], ["probe", "E"],
                             ["sleep", SLEEP_C], ["probe", "O"], ["probe", "O"]]
                    scripts.append({"id": 2 * 10**6 + did, "threshold": th, "recover_ns": RECOVER_C, "mock": mock, "script": steps})
                    did += 1
    for i in range(n):
        r = ctx.rng
        th = r.choice([0, 1, 1, 2, 3])
        steps, held, nxt, sleeps = [], [], 0, 0
        L = r.randint(5, 14)
        for _ in range(L):
            c = r.random()
            if c < 0.35 and len(held) < 4:
                steps.append(["start", nxt, r.choice("OEEP")])
                held.append(nxt)
                nxt += 1
            elif c < 0.65 and held:
                k = r.choice(held)
                held.remove(k)
                steps.append(["release", k])
            elif c < 0.78 and sleeps < 2:
                steps.append(["sleep", SLEEP_C])
                sleeps += 1
            else:
                steps.append(["probe", r.choice("OEEP")])
        for k in held:
            steps.append(["release", k])
        steps.append(["probe", "O"])
        scripts.append({"id": 10**6 + i, "threshold": th, "recover_ns": RECOVER_C, "mock": r.random() < 0.3, "script": steps})
    return scripts


def script_model_line(case, steps, hi):
    parts = ["S", str(case["threshold"]), str(case["recover_ns"]), "1" if case["mock"] else "0"]
    index = {}
    n = 0
    for st, ob in zip(case["script"], steps):
        now = str(ob["a"] if hi else ob["b"])
        if st[0] == "start":
            index[st[1]] = n
            n += 1
            parts += ["s", st[2], now]
        elif st[0] == "probe":
            n += 1
            parts += ["p", st[1], now]
        elif st[0] == "release":
            parts += ["r", str(index[st[1]]), now]
    return " ".join(parts)


def script_observed(case, steps):
    out = []
    for st, ob in zip(case["script"], steps):
        if st[0] == "start":
            out.append("F" if ob["entered"] else ob.get("r", "?"))
        elif st[0] == "probe":
            out.append(ob.get("r", "?"))
        elif st[0] == "release":
            out.append(ob.get("r") or "-")
            if out[-1] in "BM" :
                out[-1] = "-"      # it had been rejected at start; nothing was released
    return " ".join(out)


def script_oracle(case, steps, hi):
    """The property text at event granularity: entry decides by the state at entry; a forwarded call's
    outcome is counted when it ends.  Independent of the Coq model."""
    th, rec = case["threshold"], case["recover_ns"]
    count, last = 0, 0
    held = {}
    exp = []
    def entry(now):
        nonlocal count
        if count > th:
            if now - last < rec:
                return False
            count = th >> 1
        return True
    def settle(o, now):
        nonlocal count, last
        if o == "O":
            count = 0
        else:
            count += 1
            last = now
    for st, ob in zip(case["script"], steps):
        now = ob["a"] if hi else ob["b"]
        if st[0] == "start":
            ok = entry(now)
            held[st[1]] = (ok, st[2])
            exp.append("F" if ok else ("M" if case["mock"] else "B"))
        elif st[0] == "release":
            ok, o = held.pop(st[1])
            if ok:
                settle(o, now)
                exp.append(o)
            else:
                exp.append("-")
        elif st[0] == "probe":
            if entry(now):
                settle(st[1], now)
                exp.append(st[1])
            else:
                exp.append("M" if case["mock"] else "B")
    return " ".join(exp)


def run_concurrent(ctx):
    scripts = gen_scripts(ctx)
    rc, obs, err = hv.run_harness_parallel("c20", scripts, nproc=10, timeout=900)
    byid = {o["id"]: o for o in obs}
    ok = [c for c in scripts if c["id"] in byid and byid[c["id"]].get("steps")]
    if len(ok) != len(scripts):
        ctx.report("harness-crash-concurrent", "executor died on a concurrent scenario: " + err[-300:], {"failing_input": True})
    lo = hv.run_model("c20", [script_model_line(c, byid[c["id"]]["steps"], False) for c in ok])
    hi = hv.run_model("c20", [script_model_line(c, byid[c["id"]]["steps"], True) for c in ok])
    inconclusive = validated = 0
    for c, a, b in zip(ok, lo, hi):
        steps = byid[c["id"]]["steps"]
        seen = script_observed(c, steps)
        ctx.count_case("script|" + json.dumps(c["script"]) + str(c["threshold"]), nontrivial=("B" in seen or "M" in seen))
        if a != b or script_oracle(c, steps, False) != script_oracle(c, steps, True):
            inconclusive += 1
            continue
        want = script_oracle(c, steps, False)
        if seen != want:
            ctx.report("breaker-concurrent:" + first_diff(seen, want), "concurrent scenario: observed [%s], the property requires [%s]" % (seen, want),
                       {"case": c, "observed": seen, "expected": want, "model": a, "steps": steps, "failing_input": True})
        elif seen != a:
            ctx.report("correspondence-concurrent", "LTS model [%s] differs from the plugin [%s] on a concurrent scenario" % (a, seen),
                       {"case": c, "observed": seen, "model": a, "failing_input": False,
                        "correspondence": "Breaker.cstep vs circuitbreaker.IOHandler under concurrency"})
        else:
            validated += 1
            if validated <= 2:
                ctx.sample({"concurrent_script": c["script"], "threshold": c["threshold"], "observed": seen})
    ctx.note("concurrent_scenarios", len(ok))
    ctx.note("concurrent_validated", validated)
    ctx.note("concurrent_inconclusive_timing", inconclusive)


def run_bursts(ctx):
    """Failures recorded at the same instant by several callers must all be counted (the counter is one atomic
    add in the LTS: C20_concurrent_counter_nonneg / cstep).  N callers, all forwarded while closed, fail together;
    with threshold N-1 the next call must be rejected, with threshold N it must be forwarded (recovery 1 h)."""
    quick = ctx.tier == "quick"
    rounds = 150 if quick else 1500
    cases, cid = [], 3 * 10**6
    for n in (2, 3, 4, 6, 8):
        for out in ("E", "P"):
            for th, want in ((n - 1, "rejected"), (n, "forwarded")):
                cid += 1
                cases.append({"id": cid, "threshold": th, "recover_ns": HOUR, "mock": (cid % 3 == 0), "burst": n, "burst_out": out,
                              "rounds": rounds if want == "rejected" else max(20, rounds // 6), "want": want})
    # after a burst that overshoots the threshold (count > threshold + 1) the recovery time passes; the trial call of the
    # half-open state fails: the count restarts from threshold/2, so with threshold >= 1 the breaker is closed again and the
    # next call is forwarded (threshold 0: one failure opens it again)
    for n, th in ((4, 1), (5, 2), (6, 3), (8, 2), (3, 0), (6, 4)):
        if n < th + 2:
            continue
        cid += 1
        cases.append({"id": cid, "threshold": th, "recover_ns": 60 * 10**6, "mock": (cid % 2 == 0), "burst": n, "burst_out": "E",
                      "rounds": 12 if quick else 60, "after_sleep_ms": 90, "after_fail": True,
                      "want": "forwarded" if (th >> 1) + 1 <= th else "rejected"})
    # a call that passed the breaker's invoke stage while it was closed and reaches its IO stage after the burst has opened it
    # is a rejected call like any other: the mock service's answer when one is configured, ErrBreaker otherwise
    for n, th, mock in ((3, 2, True), (4, 2, True), (3, 1, False), (5, 3, True)):
        cid += 1
        cases.append({"id": cid, "threshold": th, "recover_ns": HOUR, "mock": mock, "burst": n, "burst_out": "E",
                      "rounds": 10 if quick else 60, "held": True, "want": "rejected"})
    rc, obs, err = hv.run_harness("c20", [{k: v for k, v in c.items() if k != "want"} for c in cases], timeout=1200)
    byid = {o["id"]: o for o in obs}
    total = 0
    for c in cases:
        o = byid.get(c["id"])
        if not o:
            ctx.report("harness-crash-burst", "executor died on a burst scenario: " + err[-300:], {"case": c, "failing_input": True})
            continue
        f, r, x = o.get("burst_forwarded", 0), o.get("burst_rejected", 0), o.get("burst_other", 0)
        total += f + r
        ctx.count_case("burst|%d|%s|%d" % (c["burst"], c["burst_out"], c["threshold"]), nontrivial=r > 0)
        if c.get("held") and o.get("held_bad"):
            ctx.report("breaker-held-call-not-answered-like-a-rejected-call",
                       "a call that passed the invoke stage while the breaker was closed and reached the IO stage after %d failures had "
                       "opened it (threshold %d, mock service %s) got %r in %d rounds; a rejected call gets %s"
                       % (c["burst"], c["threshold"], c["mock"], o.get("held_example"), o["held_bad"],
                          "the mock service's answer" if c["mock"] else "ErrBreaker"),
                       {"case": c, "observed": o, "failing_input": True})
        bad = f if c["want"] == "rejected" else r
        if bad:
            ctx.report("breaker-burst:%s-although-should-be-%s" % ("forwarded" if c["want"] == "rejected" else "rejected", c["want"]),
                       "%d callers failing at the same instant (outcome %s), threshold %d%s: in %d of %d rounds the next call was %s; "
                       "the property requires it to be %s (every failure of a forwarded call counts)"
                       % (c["burst"], c["burst_out"], c["threshold"],
                          ", then the recovery time passes and the trial call fails" if c.get("after_fail") else "", bad, f + r, "forwarded" if c["want"] == "rejected" else "rejected", c["want"]),
                       {"case": c, "observed": o, "failing_input": True})
    ctx.note("burst_rounds", total)


def first_diff(a, b):
    A, B = a.split(" "), b.split(" ")
    for i, (x, y) in enumerate(zip(A, B)):
        if x != y:
            return "step-kind-%s-got-%s-want-%s" % ("release" if y in "OEP-" and x in "OEP-" else "entry", x, y)
    return "length"


def run(ctx):
    ctx.level = "proof"
    ctx.assumptions += [
        "failCount is modelled as unbounded Z (2^64 failures are out of reach)",
        "the two time.Now() readings of a call lie inside the window the harness measures around it; "
        "cases where the verdict depends on where in the window are counted as inconclusive",
        "concurrency: atomic.Load/Store/Add are the atomic steps of the LTS (sequential consistency)",
    ]
    ctx.prove()
    hv.build_harness("c20")
    hv.build_modelrun("c20")
    run_concurrent(ctx)
    run_bursts(ctx)
    cases = gen_cases(ctx)
    rc, obs, err = hv.run_harness("c20", cases)
    byid = {o["id"]: o for o in obs}
    if rc != 0 or len(byid) != len(cases):
        # the implementation crashed on some case: find it
        done = set(byid)
        first = next((c for c in cases if c["id"] not in done), None)
        ctx.report("harness-crash", "harness process died (rc=%d) while running %s: %s" % (rc, first, err[-400:]),
                   {"case": first, "stderr": err[-2000:]})
        cases = [c for c in cases if c["id"] in done]
    lines0 = [model_line(c, byid[c["id"]]["calls"], False) for c in cases]
    lines1 = [model_line(c, byid[c["id"]]["calls"], True) for c in cases]
    m0 = hv.run_model("c20", lines0)
    m1 = hv.run_model("c20", lines1)
    inconclusive = 0
    disagreements = []
    for c, a, b in zip(cases, m0, m1):
        calls = byid[c["id"]]["calls"]
        seen = "".join(x["r"] for x in calls)
        canon = "%d|%d|%d|%s" % (c["threshold"], c["recover_ns"], c["mock"], c["outs"])
        la, lb = a.split(" ")[0], b.split(" ")[0]
        ctx.count_case(canon, nontrivial=("B" in seen or "M" in seen))
        ctx.bump("by_recover", str(c["recover_ns"]))
        ctx.bump("result_letters", None, 0)
        for ch in seen:
            ctx.bump("observed_results", ch)
        if "specagree=true" not in a:
            ctx.report("model-vs-spec", "extracted model and spec machine disagree (contradicts C20_refines_spec)",
                       {"case": c, "model": a})
        if la != lb:
            inconclusive += 1
            continue
        if la != seen:
            disagreements.append((c, calls, la, seen))
        elif len(ctx.cov["samples"]) < 5 and ("B" in seen or "M" in seen):
            ctx.sample({"case": c, "observed": seen, "model": la})
    ctx.note("inconclusive_timing_cases", inconclusive)
    ctx.note("traces_validated_against_impl", len(cases) - inconclusive - len(disagreements))
    ctx.note("rule", "exhaustive outcome sequences (O/E/P) up to length %d x threshold 0..4 x recover {1ns,1h} x mock on/off, "
             "plus seeded random long histories and real-time (30ms recovery, 60ms sleeps) histories; "
             "non-trivial = at least one call was rejected; distinct by (threshold,recover,mock,outcomes)"
             % (6 if ctx.tier == "quick" else 9))
    ctx.note("exhaustive", True)
    # decide
    for c, calls, la, seen in disagreements[:50]:
        why = property_oracle(c, calls)
        if why is not None:
            ctx.report("breaker:" + why.split(" ", 2)[2][:60], why,
                       {"case": c, "observed": seen, "model": la, "calls": calls, "failing_input": True})
    if disagreements and not ctx.violations:
        # search every disagreeing case for a property failure before giving up
        for c, calls, la, seen in disagreements:
            why = property_oracle(c, calls)
            if why is not None:
                ctx.report("breaker:" + why.split(" ", 2)[2][:60], why,
                           {"case": c, "observed": seen, "model": la, "calls": calls, "failing_input": True})
                break
    if disagreements and not ctx.violations:
        c, calls, la, seen = disagreements[0]
        ctx.report("correspondence", "Model/Breaker.v no longer matches the plugin (theorems C20_* not transferred)",
                   {"case": c, "observed": seen, "model": la, "calls": calls, "failing_input": False,
                    "correspondence": "Breaker.run vs circuitbreaker.IOHandler/InvokeHandler",
                    "disagreeing_cases": len(disagreements)})
    # the property oracle is also evaluated on every agreeing case (cheap, independent of the model)
    for c in cases:
        why = property_oracle(c, byid[c["id"]]["calls"])
        if why is not None:
            ctx.report("breaker:" + why.split(" ", 2)[2][:60], why,
                       {"case": c, "calls": byid[c["id"]]["calls"], "failing_input": True})
            break


def replay(ctx, path):
    r = json.load(open(path))
    hv.build_harness("c20")
    rc, obs, err = hv.run_harness("c20", [r["case"]])
    print(json.dumps(obs))
    if obs and obs[0].get("steps"):
        seen, want = script_observed(r["case"], obs[0]["steps"]), script_oracle(r["case"], obs[0]["steps"], False)
        print("observed:", seen, " required:", want)
        return 1 if seen != want else 0
    why = property_oracle(r["case"], obs[0]["calls"]) if obs else "crash"
    print("property oracle:", why)
    return 1 if why else 0
