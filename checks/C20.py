"""C20 circuit breaker: proof (Props/C20.v) + correspondence of Model/Breaker.v with the real
plugin driven through Client.Use and a scripted downstream IO handler."""
import itertools
import json
import hv

HOUR = 3600 * 10**9


def gen_cases(ctx):
    quick = ctx.tier == "quick"
    maxlen = 6 if quick else 9
    cases = []
    cid = 0
    for th in range(0, 5):
        for rec in (1, HOUR):
            for mock in (False, True):
                for L in range(1, maxlen + 1):
                    for outs in itertools.product("OEP", repeat=L):
                        cid += 1
                        cases.append({"id": cid, "threshold": th, "recover_ns": rec, "mock": mock,
                                      "outs": "".join(outs)})
    # random long histories, larger thresholds, and (thorough) real elapsed time
    n_rand = 300 if quick else 3000
    for _ in range(n_rand):
        cid += 1
        th = ctx.rng.choice([0, 1, 2, 3, 5, 8, 13])
        L = ctx.rng.randint(10, 60)
        w = ctx.rng.choice([(1, 1, 1), (1, 3, 1), (3, 1, 1), (1, 1, 3)])
        outs = "".join(ctx.rng.choices("OEP", weights=w, k=L))
        cases.append({"id": cid, "threshold": th, "recover_ns": ctx.rng.choice([1, HOUR]),
                      "mock": ctx.rng.random() < 0.5, "outs": outs})
    n_timed = 12 if quick else 150
    for _ in range(n_timed):
        cid += 1
        th = ctx.rng.choice([0, 1, 2, 3])
        L = ctx.rng.randint(4, 14)
        outs = "".join(ctx.rng.choices("OEP", weights=(1, 2, 1), k=L))
        gaps = [ctx.rng.choice([0, 0, 0, 60000]) for _ in range(L)]
        cases.append({"id": cid, "threshold": th, "recover_ns": 30 * 10**6, "mock": ctx.rng.random() < 0.5,
                      "outs": outs, "gaps_us": gaps})
    return cases


def model_line(case, calls, flip):
    parts = [str(case["threshold"]), str(case["recover_ns"]), "1" if case["mock"] else "0"]
    for k, o in enumerate(case["outs"]):
        b, a = calls[k]["b"], calls[k]["a"]
        # two extreme placements of the two clock readings inside the observed window
        n0, n1 = (a, b) if flip else (b, a)
        parts += [str(n0), str(n1), o]
    return " ".join(parts)


def property_oracle(case, calls):
    """The property text itself, evaluated on the observed behaviour (only the parts that do
    not depend on the exact clock: recover = 1 ns means 'always elapsed', 1 h 'never')."""
    th, rec = case["threshold"], case["recover_ns"]
    consecutive = 0
    for k, o in enumerate(case["outs"]):
        r, inv = calls[k]["r"], calls[k]["inv"]
        if r in "BM":
            if inv != 0:
                return "call %d rejected but downstream was invoked" % k
            if (r == "M") != case["mock"]:
                return "call %d: mock service used=%s configured=%s" % (k, r == "M", case["mock"])
        elif r in "OEP":
            if inv != 1:
                return "call %d forwarded but downstream invoked %d times" % (k, inv)
            if r != o:
                return "call %d: downstream outcome %s reported to the caller as %s" % (k, o, r)
        else:
            return "call %d: unclassifiable result %s" % (k, calls[k].get("msg"))
        if rec == 1:
            if r in "BM":
                return "call %d rejected although the recovery time (1ns) had elapsed" % k
        elif rec == HOUR:
            should_open = consecutive > th
            if should_open and r not in "BM":
                return "call %d forwarded after %d consecutive failures (threshold %d) within the recovery time" % (k, consecutive, th)
            if not should_open and r in "BM":
                return "call %d rejected after only %d consecutive failures (threshold %d)" % (k, consecutive, th)
        if r in "EP":
            consecutive += 1
        elif r == "O":
            consecutive = 0
    return None


def run(ctx):
    ctx.level = "proof"
    ctx.assumptions += [
        "failCount is modelled as unbounded Z (2^64 failures are out of reach)",
        "the two time.Now() readings of a call lie inside the window the harness measures around it; "
        "cases where the verdict depends on where in the window are counted as inconclusive",
        "concurrency: atomic.Load/Store/Add are the atomic steps of the LTS (sequential consistency)",
    ]
    ctx.prove()
    hv.build_harness("c20")
    hv.build_modelrun("c20")
    cases = gen_cases(ctx)
    rc, obs, err = hv.run_harness("c20", cases)
    byid = {o["id"]: o for o in obs}
    if rc != 0 or len(byid) != len(cases):
        # the implementation crashed on some case: find it
        done = set(byid)
        first = next((c for c in cases if c["id"] not in done), None)
        ctx.report("harness-crash", "harness process died (rc=%d) while running %s: %s" % (rc, first, err[-400:]),
                   {"case": first, "stderr": err[-2000:]})
        cases = [c for c in cases if c["id"] in done]
    lines0 = [model_line(c, byid[c["id"]]["calls"], False) for c in cases]
    lines1 = [model_line(c, byid[c["id"]]["calls"], True) for c in cases]
    m0 = hv.run_model("c20", lines0)
    m1 = hv.run_model("c20", lines1)
    inconclusive = 0
    disagreements = []
    for c, a, b in zip(cases, m0, m1):
        calls = byid[c["id"]]["calls"]
        seen = "".join(x["r"] for x in calls)
        canon = "%d|%d|%d|%s" % (c["threshold"], c["recover_ns"], c["mock"], c["outs"])
        la, lb = a.split(" ")[0], b.split(" ")[0]
        ctx.count_case(canon, nontrivial=("B" in seen or "M" in seen))
        ctx.bump("by_recover", str(c["recover_ns"]))
        ctx.bump("result_letters", None, 0)
        for ch in seen:
            ctx.bump("observed_results", ch)
        if "specagree=true" not in a:
            ctx.report("model-vs-spec", "extracted model and spec machine disagree (contradicts C20_refines_spec)",
                       {"case": c, "model": a})
        if la != lb:
            inconclusive += 1
            continue
        if la != seen:
            disagreements.append((c, calls, la, seen))
        elif len(ctx.cov["samples"]) < 5 and ("B" in seen or "M" in seen):
            ctx.sample({"case": c, "observed": seen, "model": la})
    ctx.note("inconclusive_timing_cases", inconclusive)
    ctx.note("traces_validated_against_impl", len(cases) - inconclusive - len(disagreements))
    ctx.note("rule", "exhaustive outcome sequences (O/E/P) up to length %d x threshold 0..4 x recover {1ns,1h} x mock on/off, "
             "plus seeded random long histories and real-time (30ms recovery, 60ms sleeps) histories; "
             "non-trivial = at least one call was rejected; distinct by (threshold,recover,mock,outcomes)"
             % (6 if ctx.tier == "quick" else 9))
    ctx.note("exhaustive", True)
    # decide
    for c, calls, la, seen in disagreements[:50]:
        why = property_oracle(c, calls)
        if why is not None:
            ctx.report("breaker:" + why.split(" ", 2)[2][:60], why,
                       {"case": c, "observed": seen, "model": la, "calls": calls, "failing_input": True})
    if disagreements and not ctx.violations:
        # search every disagreeing case for a property failure before giving up
        for c, calls, la, seen in disagreements:
            why = property_oracle(c, calls)
            if why is not None:
                ctx.report("breaker:" + why.split(" ", 2)[2][:60], why,
                           {"case": c, "observed": seen, "model": la, "calls": calls, "failing_input": True})
                break
    if disagreements and not ctx.violations:
        c, calls, la, seen = disagreements[0]
        ctx.report("correspondence", "Model/Breaker.v no longer matches the plugin (theorems C20_* not transferred)",
                   {"case": c, "observed": seen, "model": la, "calls": calls, "failing_input": False,
                    "correspondence": "Breaker.run vs circuitbreaker.IOHandler/InvokeHandler",
                    "disagreeing_cases": len(disagreements)})
    # the property oracle is also evaluated on every agreeing case (cheap, independent of the model)
    for c in cases:
        why = property_oracle(c, byid[c["id"]]["calls"])
        if why is not None:
            ctx.report("breaker:" + why.split(" ", 2)[2][:60], why,
                       {"case": c, "calls": byid[c["id"]]["calls"], "failing_input": True})
            break


def replay(ctx, path):
    r = json.load(open(path))
    hv.build_harness("c20")
    rc, obs, err = hv.run_harness("c20", [r["case"]])
    print(json.dumps(obs))
    why = property_oracle(r["case"], obs[0]["calls"]) if obs else "crash"
    print("property oracle:", why)
    return 1 if why else 0
