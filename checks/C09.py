"""C09 concurrent calls each get their own response: proof (Props/C09.v) + correspondence of Model/Mux.v with
the real multiplexed transports (socket, websocket, udp) and reverse.Caller.

  peer   one real client against a scripted raw-socket peer speaking the frame protocol (tcp, unix, ws, udp):
         N concurrent callers with unique payloads; the peer answers in order, reversed, interleaved, with
         strays (indices nobody holds), duplicates, and leaves some callers unanswered (they time out).
         The peer's log (index and payload of every request, every reply it sent) plus the callers' returns
         are replayed through the extracted LTS: allocated indices, who gets which reply, which replies are
         dropped, final outcomes must agree.
  svc    the same callers against a real rpc.Service whose handler sleeps as the payload says, so the
         completion order is scripted.
  wrap   one call stays pending while mask+1 further calls are issued on the same connection (udp: 32,768
         real calls; with the hook also by presetting the counter), then the pending call is answered.
  rev    reverse.Caller on a real Service with scripted providers ("!" / "=" called by hand: replies in any
         order, strays, duplicates, two provider ids sharing the counter) and with real reverse.Providers.
  hook   (only when the tree under test carries hooks/c09c10-transports.patch) the same scenarios with the
         table events store/delete/loadAndDelete/clean logged inside conn.lock: the replay then follows the
         real linearisation and also checks the present/pending fields of every event; the counter is preset
         to cross the 31-bit and 15-bit boundaries and to search for reuse distances below mask+1.

The property's own oracle (caller k got reply k; every answered call returned its own reply; strays and
duplicates reached nobody; nothing pending after quiescence) is written from the property text, in Python,
and evaluated on every observation."""
import json
import os
import hv

TRANSPORTS = ["tcp", "unix", "ws", "udp"]
MASK = {"tcp": 2**31 - 1, "unix": 2**31 - 1, "ws": 2**31 - 1, "udp": 2**15 - 1}
CFG = {"tcp": "socket", "unix": "socket", "ws": "socket", "udp": "udp"}


# ------------------------------------------------------------------------------------ hook detection / build

def hook_present():
    """the tree under test carries the whole of hooks/c09c10-transports.patch: the hook files AND the call lines"""
    for pkg in ("socket", "websocket", "udp"):
        try:
            if "VerifEventHook" not in open(os.path.join(hv.REPO, "rpc", pkg, "verif_on.go")).read():
                return False
            src = open(os.path.join(hv.REPO, "rpc", pkg, "transport.go")).read()
            for needle in ('verifYield("before-store"', 'verifEvent("store"', 'verifEvent("loadAndDelete"', 'verifEvent("clean-done"',
                           'verifYieldErr("before-onExit"', 'verifYield("dequeued"'):
                if needle not in src:
                    return False
        except OSError:
            return False
    return True


def rev_hook_present():
    try:
        return 'verifYield("caller.appended"' in open(os.path.join(hv.REPO, "rpc", "plugins", "reverse", "caller.go")).read()
    except OSError:
        return False


def build_hooked(name):
    """hv.build_harness builds with -tags verif only; the hooked executor needs one more tag."""
    hd = os.path.join(hv.V, "harness")
    out = os.path.join(hv.HBIN, "hv-%shook" % name)
    with hv.Lock("go" + hv.ALT):
        tags = "verif c09c10hook"
        try:
            if 'verifYield("caller.appended"' in open(os.path.join(hv.REPO, "rpc", "plugins", "reverse", "caller.go")).read():
                tags += " c09revhook"
        except OSError:
            pass
        cmd = ["go", "build", "-tags", tags, "-o", out]
        cmd[2:2] = hv.cover_flags()
        if hv.ALT:
            cmd.append("-modfile=" + os.path.join(hv.BUILD, "alt-" + hv.ALT, "go.mod"))
        rc, o, e = hv.sh(cmd + ["./cmd/" + name], cwd=hd, env=hv.GOENV, timeout=1800)
        if rc != 0:
            raise hv.EnvError("hooked harness %s does not build: %s" % (name, e[-3000:]))
    return out


# ------------------------------------------------------------------------------------ generation

def gen_peer_case(rng, cid, transport, hook):
    n = rng.choice([2, 3, 4, 5, 6, 8, 12])
    ks = list(range(n))
    order = rng.choice(["inorder", "reversed", "random", "random"])
    answered = [k for k in ks if rng.random() < 0.85] or [0]
    unanswered = [k for k in ks if k not in answered]
    seq = list(answered)
    if order == "reversed":
        seq.reverse()
    elif order == "random":
        rng.shuffle(seq)
    steps = []
    for k in ks:
        # unanswered callers get a short deadline; the others the default
        steps.append(["call", k, 250 if k in unanswered else 2500])
    steps.append(["await_recv", n, 3000])
    extras = {"strays": 0, "dups": 0}
    cancelled = []
    if rng.random() < 0.35 and len(seq) >= 2:
        # some callers give up (context cancelled) while their neighbours are still pending; the neighbours are answered afterwards
        cancelled = [k for k in seq if rng.random() < 0.4][:len(seq) - 1]
        for k in cancelled:
            steps.append(["cancel", k])
        for k in cancelled:
            steps.append(["await_ret", k, 2000])
        seq = [k for k in seq if k not in cancelled]
        answered = [k for k in answered if k not in cancelled]
    if transport == "ws" and seq and rng.random() < 0.6:
        # websocket: a TEXT frame is not a response, whatever its first four bytes say (here: a pending caller's index)
        for k in rng.sample(seq, min(len(seq), rng.choice([1, 2]))):
            steps.append(["peer_text", k])
        steps.append(["sleep", 5])
        extras["text_frames"] = 1
    for k in seq:
        r = rng.random()
        if r < 0.18:
            # an index nobody holds: far away from the counter
            steps.append(["stray", rng.choice([n + 50 + rng.randint(0, 1000), 0x7000 + rng.randint(0, 100)])])
            extras["strays"] += 1
        if r > 0.8:
            steps.append(["reply_dup", k])
            extras["dups"] += 1
        else:
            steps.append(["reply", k])
        if rng.random() < 0.2:
            steps.append(["sleep", rng.choice([1, 3, 10])])
    if rng.random() < 0.5 and answered:
        # a late duplicate of an already consumed reply
        steps.append(["sleep", 5])
        steps.append(["reply", rng.choice(answered)])
        extras["dups"] += 1
    for k in ks:
        steps.append(["await_ret", k, 3000])
    steps.append(["sleep", 20])
    steps.append(["probe", "end"])
    return {"id": cid, "fam": "peer", "transport": transport, "peer": "script", "steps": steps, "hook": False,
            "n": n, "order": order, "unanswered": unanswered, "cancelled": cancelled, **extras}


def gen_svc_case(rng, cid, transport):
    n = rng.choice([3, 4, 6, 8, 12, 16])
    order = rng.choice(["inorder", "reversed", "random"])
    delays = [0] * n
    if order == "inorder":
        delays = [5 + 6 * k for k in range(n)]
    elif order == "reversed":
        delays = [5 + 6 * (n - k) for k in range(n)]
    else:
        delays = [rng.choice([0, 0, 5, 15, 30, 50]) for _ in range(n)]
    steps = [["call", k, 0, delays[k]] for k in range(n)]
    steps += [["await_ret", k, 5000] for k in range(n)]
    steps += [["sleep", 20], ["probe", "end"]]
    return {"id": cid, "fam": "svc", "transport": transport, "peer": "service", "steps": steps, "hook": False,
            "n": n, "order": order}


def gen_wrap_real(cid, variant, quick_n=32767):
    """hook-free: A (caller 0) pending, quick_n sequential quick calls answered at once, B, then the reply to A."""
    b = 1 + quick_n
    steps = [["call", 0, -1], ["await_recv", 1, 3000], ["auto", 1], ["quick", quick_n, 1, 400], ["auto", 0],
             ["call", b, -1], ["await_recv", quick_n + 2, 3000]]
    if variant == "swap":
        steps += [["reply", 0], ["await_ret", b, 1500], ["await_ret", 0, 400]]
    else:
        steps += [["reply", b], ["await_ret", b, 1500], ["reply", 0], ["await_ret", 0, 600]]
    steps += [["probe", "end"], ["cancel", 0], ["cancel", b], ["await_ret", 0, 1500], ["await_ret", b, 1500]]
    return {"id": cid, "fam": "wrap", "transport": "udp", "peer": "script", "steps": steps, "hook": False,
            "variant": variant, "a": 0, "b": b, "quick": quick_n}


def gen_nowrap_real(cid, transport, quick_n):
    b = 1 + quick_n
    steps = [["call", 0, -1], ["await_recv", 1, 3000], ["auto", 1], ["quick", quick_n, 1, 1000], ["auto", 0],
             ["call", b, -1], ["await_recv", quick_n + 2, 3000], ["reply", 0], ["await_ret", 0, 1500],
             ["reply", b], ["await_ret", b, 1500], ["probe", "end"]]
    return {"id": cid, "fam": "nowrap", "transport": transport, "peer": "script", "steps": steps, "hook": False,
            "a": 0, "b": b, "quick": quick_n}


def gen_preset_case(rng, cid, transport, kind):
    """hook: the counter is preset through the verif accessor.
       boundary: three callers whose indices straddle the mask boundary.
       distance: A pending; counter advanced by d-1; B draws an index: collision iff d is a multiple of mask+1."""
    m = MASK[transport]
    if kind == "boundary":
        steps = [["call", 0], ["await_recv", 1, 3000], ["reply", 0], ["await_ret", 0, 2000],
                 ["setctr", (m - 1) if m < 2**31 - 1 else 0x7ffffffe],
                 ["call", 1], ["call", 2], ["call", 3], ["await_recv", 4, 3000],
                 ["reply", 3], ["reply", 1], ["reply", 2]]
        steps += [["await_ret", k, 2000] for k in (1, 2, 3)] + [["probe", "end"]]
        return {"id": cid, "fam": "preset-boundary", "transport": transport, "peer": "script", "steps": steps, "hook": True}
    d = kind
    steps = [["call", 0, -1], ["await_recv", 1, 3000], ["addctr", d - 1], ["call", 1, -1], ["await_recv", 2, 3000],
             ["reply", 0], ["await_ret", 0, 600], ["await_ret", 1, 300], ["reply", 1], ["await_ret", 1, 600], ["await_ret", 0, 300],
             ["probe", "end"], ["cancel", 0], ["cancel", 1], ["await_ret", 0, 1500], ["await_ret", 1, 1500]]
    return {"id": cid, "fam": "preset-distance", "transport": transport, "peer": "script", "steps": steps, "hook": True,
            "distance": d}


def gen_pool_case(rng, transport):
    """a real Service whose handler runs the requests on a small worker pool (Handler.Pool: two workers, a queue of eight):
    20..40 concurrent calls on one connection, so that tasks do wait in the pool's queue"""
    n = rng.choice([20, 24, 30, 36, 40])
    delays = [rng.choice([0, 0, 0, 1, 2, 5]) for _ in range(n)]
    steps = [["call", k, 0, delays[k]] for k in range(n)]
    steps += [["await_ret", k, 6000] for k in range(n)]
    steps += [["sleep", 20], ["probe", "end"]]
    return {"fam": "pool", "transport": transport, "peer": "service", "pool": True, "steps": steps, "hook": False, "n": n,
            "order": "random"}


def gen_rev_mixed_case(rng):
    """reverse.Caller with a real reverse.Provider whose functions succeed, return an error, or panic, mixed in ONE batch:
    some warm-up calls to another provider first (so that the identifiers of the batch differ from their slots in it), then the
    batch is queued while the provider is not listening yet and fetched at once"""
    w = rng.choice([1, 2, 3, 4, 6])
    n = rng.choice([4, 6, 8, 10])
    methods = [rng.choice(["echo", "echo", "fail", "boom", "boom"]) for _ in range(n)]
    if "boom" not in methods:
        methods[rng.randrange(n)] = "boom"
    steps = []
    for j in range(w):
        steps += [["invoke", 100 + j, "pw", 0, 0, "echo"], ["await_ret", 100 + j, 3000]]
    for k in range(n):
        steps.append(["invoke", k, "pa", 0, rng.choice([0, 0, 10, 25]) if methods[k] == "echo" else 0, methods[k]])
    steps += [["sleep", 60], ["listen", "pa"]]
    steps += [["await_ret", k, 3000] for k in range(n)]
    return {"fam": "rev-mixed", "kind": "reverse", "rev": {"providers": ["pw", "pa"], "mode": "real", "late": ["pa"], "caller_timeout_ms": 1500},
            "steps": steps, "n": n, "methods": methods, "warmups": w}


def gen_rev_abandon_case(rng):
    """reverse.Caller: several calls are queued for a provider that is not listening yet; some of them - not the last
    queued - give up (deadline of a few milliseconds) while still queued; then the provider starts.  Every call that
    did not give up is answered with its own result."""
    n = rng.choice([3, 4, 6, 8])
    quitters = sorted(rng.sample(range(n - 1), rng.choice([1, 1, 2]) if n > 3 else 1))
    if rng.random() < 0.6 and 0 not in quitters:
        quitters = [0] + quitters[1:]        # the OLDEST queued call gives up (and possibly another one)
    steps = []
    for k in range(n):
        steps.append(["invoke", k, "pa", 25 if k in quitters else 0, 0, "echo"])
    steps += [["sleep", 120], ["listen", "pa"]]
    steps += [["await_ret", k, 3000] for k in range(n)]
    return {"fam": "rev-mixed", "kind": "reverse", "rev": {"providers": ["pw", "pa"], "mode": "real", "late": ["pa"], "caller_timeout_ms": 1500},
            "steps": steps, "n": n, "methods": ["echo"] * n, "warmups": 0, "unanswered": quitters, "abandon": True}


def gen_rev_answer_before_registered_case(rng):
    """hook (yield point caller.appended of rpc/plugins/reverse): a call is queued for its provider and the caller is held
    right there; the provider fetches the batch, executes and answers; only then does the caller go on.  The answer
    arrived while the call was in flight: the caller must get it."""
    n = rng.choice([1, 2, 3])
    steps = [["hold_appended"]]
    for k in range(n):
        steps.append(["invoke", k, "pa", 0, 0])
    steps += [["sleep", 60], ["fetch", "pa"], ["end", "pa", [["k", k] for k in range(n)]], ["sleep", 20], ["release_appended"]]
    steps += [["await_ret", k, 1500] for k in range(n)]
    return {"fam": "rev-script", "kind": "reverse", "rev": {"providers": ["pa"], "mode": "script", "caller_timeout_ms": 1000},
            "steps": steps, "n": n, "dest": ["pa"] * n, "unanswered": [], "strays": 0, "dups": 0, "hook": True, "forced": "answer-before-registered"}


def gen_rev_first_calls_case(rng):
    """reverse.Caller: the very FIRST calls to provider ids nobody has called yet, several callers at the same instant per
    id (the caller creates its per-provider tables on first use); a scripted provider then fetches and answers each id."""
    ids = ["q%d" % i for i in range(rng.choice([120, 160]))]
    per = rng.choice([8, 12])
    steps, k = [], 0
    for p in ids:
        steps.append(["invoke_burst", k, per, p])
        k += per
    steps.append(["sleep", 40])
    k = 0
    for p in ids:
        steps.append(["fetch", p])
        steps.append(["end", p, [["k", k + j] for j in range(per)]])
        k += per
    n = k
    steps += [["await_ret", j, 3000] for j in range(n)]
    dest = [p for p in ids for _ in range(per)]
    return {"fam": "rev-script", "kind": "reverse", "rev": {"providers": ids, "mode": "script", "caller_timeout_ms": 2500},
            "steps": steps, "n": n, "dest": dest, "unanswered": [], "strays": 0, "dups": 0, "first_calls": True}


def deliver_hook_present():
    try:
        return 'verifYield("before-deliver"' in open(os.path.join(hv.REPO, "rpc", "socket", "transport.go")).read()
    except OSError:
        return False


def gen_late_delivery_case(cid, transport):
    """hook (yield point before-deliver of rpc/socket): the Receive goroutine has taken caller 0's pending entry and is held
    before it hands the response over; caller 0 gives up and returns; the delivery then goes into the channel of a call
    that is over.  The next caller on the connection gets the reply to ITS request, never the late one."""
    steps = [["call", 0, 2500], ["await_recv", 1, 3000], ["hold", "recv", "before-deliver"], ["reply", 0],
             ["await_yield", "recv", "before-deliver", 3000], ["cancel", 0], ["await_ret", 0, 2000],
             ["release", "recv", "before-deliver"], ["sleep", 20],
             ]
    # whatever per-call object the transport recycles, one of the next calls would pick it up
    for k in range(1, 25):
        steps += [["call", k, 2500], ["await_recv", k + 1, 3000], ["reply", k], ["await_ret", k, 3000]]
    steps += [["sleep", 20], ["probe", "end"]]
    return {"id": cid, "fam": "late-delivery", "transport": transport, "peer": "script", "steps": steps, "hook": True,
            "cancelled": [0], "unanswered": [], "n": 25}


def gen_first_select_case(cid, transport):
    """hook: Send is held with caller 0's request in hand, so callers 1 and 2 sit in their FIRST select with nobody to take
    their requests; caller 1 is cancelled there (case <-ctx.Done(): c.delete(index) of the first select); then Send goes on
    and callers 2 and 0 are answered."""
    steps = [["hold", "send", "dequeued"], ["call", 0, 2500], ["await_yield", "send", "dequeued", 3000],
             ["call", 1, 2500], ["await_yield", "k1", "before-enqueue", 3000],
             ["call", 2, 2500], ["await_yield", "k2", "before-enqueue", 3000], ["sleep", 20],
             ["cancel", 1], ["await_ret", 1, 2000], ["release", "send", "dequeued"], ["await_recv", 2, 3000],
             ["reply", 2], ["reply", 0], ["await_ret", 2, 3000], ["await_ret", 0, 3000], ["sleep", 20], ["probe", "end"]]
    return {"id": cid, "fam": "first-select-cancel", "transport": transport, "peer": "script", "steps": steps, "hook": True,
            "cancelled": [1], "unanswered": []}


def gen_rev_case(rng, cid, mode):
    provs = ["pa", "pb"] if rng.random() < 0.7 else ["pa", "pb", "pc"]
    n = rng.choice([3, 4, 6, 8])
    dest = [rng.choice(provs) for _ in range(n)]
    steps = []
    if mode == "real":
        delays = [rng.choice([0, 0, 10, 30, 60]) for _ in range(n)]
        steps = [["invoke", k, dest[k], 0, delays[k]] for k in range(n)]
        steps += [["await_ret", k, 5000] for k in range(n)]
        return {"id": cid, "fam": "rev-real", "kind": "reverse", "rev": {"providers": provs, "mode": "real"},
                "steps": steps, "n": n, "dest": dest}
    unanswered = [k for k in range(n) if rng.random() < 0.15]
    for k in range(n):
        steps.append(["invoke", k, dest[k], 300 if k in unanswered else 0, 0])
    steps.append(["sleep", 60])
    for p in provs:
        if any(d == p for d in dest):
            steps.append(["fetch", p])
    strays = dups = 0
    for p in provs:
        mine = [k for k in range(n) if dest[k] == p and k not in unanswered]
        rng.shuffle(mine)
        items = []
        for k in mine:
            r = rng.random()
            if r < 0.2:
                # a stray: an index nobody waits for, or the index of a call that went to ANOTHER provider
                others = [j for j in range(n) if dest[j] != p]
                items.append(["stray", 900000 + rng.randint(0, 99)] if not others or rng.random() < 0.5
                             else ["strayof", rng.choice(others)])
                strays += 1
            items.append(["dup", k] if r > 0.8 else ["k", k])
            dups += 1 if r > 0.8 else 0
        if items:
            steps.append(["end", p, items])
    steps += [["await_ret", k, 3000] for k in range(n)]
    return {"id": cid, "fam": "rev-script", "kind": "reverse", "rev": {"providers": provs, "mode": "script"},
            "steps": steps, "n": n, "dest": dest, "unanswered": unanswered, "strays": strays, "dups": dups}


def corpus_cases(ctx, hook):
    """corpus/C09-*.json: inputs that failed once (repaired defects).  They run first and must pass."""
    import glob
    out = []
    for n, f in enumerate(sorted(glob.glob(os.path.join(hv.V, "corpus", "C09-*.json")))):
        r = json.load(open(f))
        c = dict(r["case"])
        if c.get("hook") and not hook:
            continue
        if r.get("tier") == "thorough" and ctx.tier == "quick":
            continue
        c["id"] = 900000 + n
        c["corpus"] = os.path.basename(f)
        c["fixed_by"] = r.get("fixed_by")
        out.append(c)
    return out


def gen_cases(ctx, hook):
    rng = ctx.rng
    quick = ctx.tier == "quick"
    cases = []
    cid = 0

    def add(c):
        nonlocal cid
        cid += 1
        c["id"] = cid
        cases.append(c)
    per = 10 if quick else 60
    for t in TRANSPORTS:
        for _ in range(per):
            c = gen_peer_case(rng, 0, t, hook)
            c["hook"] = False
            add(c)
        for _ in range(3 if quick else 15):
            add(gen_svc_case(rng, 0, t))
        for _ in range(2 if quick else 8):
            add(gen_pool_case(rng, t))
    for t in ("tcp", "ws", "udp"):
        add(gen_nowrap_real(0, t, 200 if quick else 1500))
    if not (quick and hook):
        # with the hook the same collision is reached by presetting the counter (family preset-distance)
        add(gen_wrap_real(0, "swap"))
    if not quick:
        add(gen_wrap_real(0, "lost"))
    for _ in range(6 if quick else 40):
        add(gen_rev_case(rng, 0, "script"))
    for _ in range(2 if quick else 10):
        add(gen_rev_case(rng, 0, "real"))
    for _ in range(4 if quick else 20):
        add(gen_rev_mixed_case(rng))
    for _ in range(4 if quick else 20):
        add(gen_rev_abandon_case(rng))
    for _ in range(3 if quick else 12):
        add(gen_rev_first_calls_case(rng))
    if hook and rev_hook_present():
        for _ in range(2 if quick else 6):
            add(gen_rev_answer_before_registered_case(rng))
    if hook and deliver_hook_present():
        for t in ("tcp", "unix"):
            add(gen_late_delivery_case(0, t))
    if hook:
        for t in ("tcp", "ws", "udp"):
            add(gen_first_select_case(0, t))
        for t in ("tcp", "ws", "udp", "unix"):
            add(gen_preset_case(rng, 0, t, "boundary"))
        for t in ("tcp", "ws", "udp"):
            m = MASK[t]
            ds = [256, 4096, 16384, 32768, 65536, 2**20, 2**30] if not quick else [16384, 32768, 65536, 2**30]
            for d in ds:
                if t != "udp" and d >= 2**31:
                    continue
                add(gen_preset_case(rng, 0, t, d))
    return cases


# ------------------------------------------------------------------------------------ log -> model ops

def resolve_strayof(case, obs):
    """'strayof k' in reverse scripts is resolved by the executor? no: resolved here before running."""
    return case


def ops_from_log(case, obs):
    """Build the op line of extract/drv_c09.ml from the observation, and the list of expectations
    [(op position, what the implementation showed)] to compare with the model's output tokens."""
    log = obs["log"]
    t = case.get("transport", "tcp")
    cfg = "reverse" if case.get("kind") == "reverse" else CFG[t]
    ops, expect = [cfg], []
    hooked = obs.get("hook_used") and any(e["e"].startswith("t:") for e in log)
    known = set()          # callers allocated in the model
    stored, enq = set(), set()
    idx_of = {}
    returned = {}

    def emit(*toks):
        ops.extend(str(x) for x in toks)

    def npos():
        # number of ops emitted so far = index of the next output token
        return sum(1 for _ in expect_positions)
    expect_positions = []  # one entry per op emitted (to align with output tokens)

    def op(tokens, shown=None):
        emit(*tokens)
        expect_positions.append(shown)

    def ensure(k, dest, i):
        if k not in known:
            known.add(k)
            idx_of[k] = i
            op(["a", "h%d" % k, dest, i], ("a", i))

    if case.get("kind") == "reverse":
        # one counter for all provider ids: the draws are replayed in counter order (every invocation of a scripted
        # scenario precedes the first fetch)
        for e in sorted((e for e in log if e["e"] == "prov-recv" and e["i"] >= 0), key=lambda e: e["i"]):
            ensure(e["k"], e["c"], e["i"])
        for e in log:
            k = e["k"]
            if e["e"] == "prov-recv" and e["i"] >= 0:
                op(["e", "h%d" % k])
                op(["s", "h%d" % k], ("s", 0))
                stored.add(k)
            elif e["e"] == "prov-send" and e["i"] >= 0:
                if k in known and idx_of.get(k) == e["i"]:
                    op(["ans", "h%d" % k])
                else:
                    # a result returned under an identifier that is not this call's (or for a call never fetched): for the
                    # table it is a reply with an index of the provider's invention
                    op(["stray", e["c"], e["i"]])
                op(["dl", e["c"], e["i"]], None)
            elif e["e"] == "prov-stray":
                op(["stray", e["c"], e["i"]])
                op(["dl", e["c"], e["i"]], ("d", "-"))
            elif e["e"] == "call-ret" and k in known:
                out = e["s"]
                if out.startswith("own") or out.startswith("other") or out.startswith("resp"):
                    op(["t", "h%d" % k], ("t", out))
                else:
                    op(["x", "h%d" % k])
        return ops, expect_positions

    last_send = {}
    for e in log:
        if e["e"] in ("peer-send", "svc-send"):
            last_send[e["k"]] = e["q"]
    if hooked:
        for e in log:
            k = e["k"]
            kind = e["e"]
            if kind == "y:before-store" and k >= 0:
                ensure(k, 0, e["i"])
            elif kind == "t:store" and k >= 0:
                ensure(k, 0, e["i"])
                idx_of[k] = e["i"]          # rpc/udp may have drawn again after a refused store
                op(["s", "h%d" % k], ("s", e.get("x", 0), e["i"]))
                stored.add(k)
            elif kind == "y:dequeued":
                cands = [kk for kk in stored if idx_of.get(kk) == e["i"] and kk not in enq and kk not in returned]
                if cands:
                    kk = cands[-1]
                    enq.add(kk)
                    op(["e", "h%d" % kk])
            elif kind in ("peer-send", "svc-send") and k in known:
                if k in enq:
                    op(["ans", "h%d" % k])
                    if e["q"] == last_send.get(k):
                        op(["f", "h%d" % k])      # the peer never answers this request again
                else:
                    op(["stray", 0, e["i"] if e["i"] >= 0 else idx_of.get(k, 0)])
            elif kind == "peer-stray":
                op(["stray", 0, e["i"]])
            elif kind == "t:loadAndDelete":
                op(["dl", 0, e["i"]], ("dload", e.get("x", 0)))
            elif kind == "t:delete" and k in known:
                op(["x", "h%d" % k])
                returned[k] = "cancel"
            elif kind == "t:clean":
                op(["close"], ("c", e["i"]))
            elif kind == "setctr":
                op(["setctr", e.get("n", 0) & 0xffffffff if e.get("n", 0) >= 0 else (e.get("n", 0) + 2**32)])
            elif kind == "call-ret" and k in known:
                out = e["s"]
                if k in returned:
                    continue
                returned[k] = out
                if out.startswith("own") or out.startswith("other") or out.startswith("resp"):
                    op(["t", "h%d" % k], ("t", out))
                elif out.startswith("error"):
                    op(["t", "h%d" % k], ("t", "E"))
        return ops, expect_positions

    # hook-free: the peer's log and the returns
    answered_dl = []
    for e in log:
        k = e["k"]
        kind = e["e"]
        if kind == "peer-recv" and k >= 0:
            ensure(k, 0, e["i"])
            if k not in stored:
                stored.add(k)
                enq.add(k)
                op(["s", "h%d" % k], None)
                op(["e", "h%d" % k])
        elif kind == "peer-send" and k in known:
            op(["ans", "h%d" % k])
            if e["q"] == last_send.get(k):
                op(["f", "h%d" % k])      # the peer never answers this request again
            op(["dl", 0, e["i"]], None)
        elif kind == "peer-stray":
            op(["stray", 0, e["i"]])
            op(["dl", 0, e["i"]], None)
        elif kind == "call-ret" and k in known:
            out = e["s"]
            if out.startswith("own") or out.startswith("other") or out.startswith("resp"):
                op(["t", "h%d" % k], ("t", out))
            elif out.startswith("error"):
                op(["t", "h%d" % k], ("t", "E"))
            else:
                op(["x", "h%d" % k])
    return ops, expect_positions


def parse_model(out):
    head, _, tail = out.partition("|")
    toks = head.split()
    summ = dict(x.split("=", 1) for x in tail.split())
    return toks, summ


def compare(case, obs, ops, expect, out):
    """None if the replay agrees with the implementation, else a text."""
    toks, summ = parse_model(out)
    bad = [t for t in toks if t.startswith("!")]
    if bad:
        return "model: step not enabled %s (op list %s ...)" % (bad[0], " ".join(ops[:40]))
    if len(toks) != len(expect):
        return "model produced %d tokens for %d ops" % (len(toks), len(expect))
    for pos, (tok, shown) in enumerate(zip(toks, expect)):
        if shown is None:
            continue
        what, val = shown[0], shown[1]
        if what == "a" and tok != "a:%d" % val:
            return "op %d: the implementation drew index %d, the model %s" % (pos, val, tok)
        if what == "s":
            parts = tok.split(":")
            if len(parts) != 4 or int(parts[1]) != val:
                return "op %d: store found the index %s, model %s" % (pos, "present" if val else "free", tok)
            if len(shown) > 2 and int(parts[2]) != shown[2]:
                return "op %d: the caller registered under index %d, the model under %s (after %s refused stores)" % (pos, shown[2], parts[2], parts[3])
        if what == "dload":
            loaded = tok != "d:-"
            if loaded != bool(val):
                return "op %d: loadAndDelete loaded=%s, model %s" % (pos, bool(val), tok)
        if what == "d" and tok != "d:" + val:
            return "op %d: model delivers %s where the implementation dropped the reply" % (pos, tok)
        if what == "c" and tok != "c:%d" % val:
            return "op %d: rangeAndClean failed %d entries, model %s" % (pos, val, tok)
        if what == "t":
            if val == "E":
                want = "t:E"
            elif val.startswith("own"):
                want = None   # t:R<own handle>, checked below
            else:
                want = None
            if want and tok != want:
                return "op %d: caller returned the connection error, model %s" % (pos, tok)
            if val.startswith("own") or val.startswith("other"):
                # the handle of the taker is in the op list: find it
                pass
    # final outcomes: the model's view of who got whose reply
    k_of_pos = {}
    p = 0
    i = 1
    arity = {"a": 4, "s": 2, "e": 2, "ans": 2, "f": 2, "stray": 3, "dl": 3, "t": 2, "x": 2, "close": 1, "setctr": 2}
    while i < len(ops):
        o = ops[i]
        if o in ("t",):
            k_of_pos[p] = int(ops[i + 1][1:])
        i += arity[o]
        p += 1
    for pos, k in k_of_pos.items():
        tok = toks[pos]
        res = obs["results"].get(str(k), "")
        if tok.startswith("t:Rh"):
            prov = int(tok[4:])
            want = "own" if prov == k else "other:%d" % prov
            if res.startswith("ownerr"):
                res = "own"
            if res.startswith("othererr:"):
                res = "other:" + res.split(":", 1)[1]
            if res != want:
                return "caller %d returned %r, the model says it holds the reply to request %d" % (k, res, prov)
        elif tok == "t:R-":
            if not res.startswith("resp:STRAY"):
                return "caller %d returned %r, the model says it holds a stray" % (k, res)
        elif tok == "t:E":
            if not res.startswith("error"):
                return "caller %d returned %r, the model says the connection error" % (k, res)
    return None


# ------------------------------------------------------------------------------------ the property's oracle

def oracle(case, obs):
    """Evaluated on the observation alone (no model).  Returns (key, text) or None."""
    log = obs["log"]
    t = case.get("transport", "rev")
    res = obs["results"]
    recv_ev = "prov-recv" if case.get("kind") == "reverse" else "peer-recv"
    send_ev = "prov-send" if case.get("kind") == "reverse" else "peer-send"
    if case.get("peer") == "service":
        send_ev = "svc-send"
    serr = [e for e in log if e["e"] == "script-error" and "no request of caller" in e.get("s", "")]
    if serr:
        return ("c09:%s:request-not-delivered" % t, "%s: %s although the connection was healthy and the caller was waiting" % (t, serr[0]["s"]))
    perr = [e for e in log if e["e"] == "prov-error"]
    if perr:
        return ("c09:rev:provider-call-failed", "reverse: a scripted provider's call to the Caller failed: %s (a result that nobody waits for must be "
                "dropped, not block the '=' call)" % perr[0].get("s", "")[:120])
    # 0. reverse: a provider returns the outcome of a call under that call's identifier (not under its slot in the batch)
    if case.get("kind") == "reverse":
        fetched = {e["k"]: e for e in log if e["e"] == "prov-recv" and e["i"] >= 0 and e["k"] >= 0}
        for e in log:
            if e["e"] == "prov-send" and e["k"] >= 0 and e["k"] in fetched and e["i"] != fetched[e["k"]]["i"]:
                return ("c09:rev:outcome-reported-under-wrong-identifier",
                        "reverse: the provider returned the outcome of caller %d's call (identifier %d, slot %d of its batch) under identifier %d: "
                        "its caller gets nothing (%s) and whoever holds identifier %d may get it"
                        % (e["k"], fetched[e["k"]]["i"], fetched[e["k"]].get("x", 0), e["i"], res.get(str(e["k"]), "still waiting")[:30], e["i"]))
    if case.get("abandon"):
        # a call that gave up while still queued (long before the provider started) is withdrawn: it is not handed to the
        # provider later, and nothing of it stays queued
        for e in log:
            if e["e"] == "prov-recv" and e["k"] in case.get("unanswered", []):
                return ("c09:rev:abandoned-call-still-delivered",
                        "reverse: caller %d gave up (25 ms deadline) while its call was queued for a provider that was not listening; "
                        "when the provider started 120 ms later the call was still delivered to it" % e["k"])
    if case["fam"] == "rev-mixed":
        for k, meth in enumerate(case["methods"]):
            want = "own" if meth == "echo" else "ownerr:" + meth
            if k in case.get("unanswered", []):
                continue          # gave up while still queued (deadline of a few ms on purpose)
            if res.get(str(k)) != want and not hv_is_env(res.get(str(k), "")):
                return ("c09:rev:wrong-outcome", "reverse: caller %d invoked %s and got %r (expected %s: the outcome of its own call)"
                        % (k, meth, res.get(str(k)), want))
    # 1. nobody returns somebody else's reply, a stray or a made-up body
    for k, r in sorted(res.items(), key=lambda kv: int(kv[0])):
        if r.startswith("othererr:"):
            return ("c09:%s:wrong-response" % t, "%s: caller %s returned the error of caller %s's call" % (t, k, r.split(":")[1]))
        if r.startswith("other:") or r.startswith("resp:"):
            d = reuse_distance(case, obs, int(k))
            if d:
                return ("c09:%s:pending-index-reissued-after-%d-calls" % (t, d),
                        "%s: caller %s returned %s: the index of a call still pending was issued again after %d calls on the "
                        "connection and the new call's store overwrote the entry" % (t, k, r, d))
            return ("c09:%s:wrong-response" % t, "%s: caller %s returned %s instead of the reply to its own request" % (t, k, r))
    # 2. a caller whose request was answered while it was waiting returns that reply
    ret_seq = {e["k"]: e["q"] for e in log if e["e"] == "call-ret"}
    first_send = {}
    for e in log:
        if e["e"] == send_ev and e["k"] >= 0 and e["k"] not in first_send:
            first_send[e["k"]] = e["q"]
    cancelled = {e["k"] for e in log if e["e"] == "user-cancel"}
    for k, q in first_send.items():
        r = res.get(str(k))
        if r is None or r.startswith("own"):
            continue
        if is_filler(case, k):
            # the fillers of the wrap scenarios run with a 400 ms deadline on purpose; one that expires while its reply is on the
            # way (select may pick ctx.Done even when the reply is already in the channel) says nothing about matching
            obs.setdefault("_inconclusive", []).append(k)
            continue
        if datagram_may_be_lost(case, obs, k, q):
            obs.setdefault("_inconclusive", []).append(k)      # UDP may drop the reply: no verdict without evidence of arrival
            continue
        if case["fam"] == "late-delivery" and k in case.get("cancelled", []):
            continue        # the schedule holds the delivery of this reply until the caller has given up: it returns canceled
        if k in cancelled and ret_seq.get(k, 10**9) > q and r.startswith("canceled"):
            # answered, still not returned when the script gave up on it and cancelled it
            d = reuse_distance(case, obs, k)
            if d:
                return ("c09:%s:pending-index-reissued-after-%d-calls" % (t, d),
                        "%s: the peer answered caller %d but the reply never reached it (it was still waiting when the script "
                        "cancelled it): its index had been issued again after %d calls on the connection" % (t, k, d))
            return ("c09:%s:response-lost" % t, "%s: the peer answered caller %d while it was waiting, yet it never got the reply (%s)" % (t, k, r))
        if r.startswith("timeout") and ret_seq.get(k, -1) > q:
            # was the deadline short on purpose?  only unanswered callers get short deadlines
            if k in case.get("unanswered", []):
                continue
            d = reuse_distance(case, obs, k)
            if d:
                return ("c09:%s:pending-index-reissued-after-%d-calls" % (t, d),
                        "%s: caller %d ended in %s although the peer had answered it: its index had been issued again after %d calls" % (t, k, r, d))
            return ("c09:%s:response-lost" % t, "%s: caller %d ended in %s although the peer answered it while it was waiting" % (t, k, r))
        if r.startswith("error") and case["fam"] in ("peer", "svc", "pool", "rev-real", "rev-script", "nowrap"):
            if hv_is_env(r):
                continue
            return ("c09:%s:call-failed" % t, "%s: caller %d failed with %s on a healthy connection" % (t, k, r))
    # 3. with a healthy real service every call succeeds
    if case["fam"] in ("svc", "rev-real", "pool"):
        for k in range(case["n"]):
            r = res.get(str(k))
            if r != "own" and not (r and hv_is_env(r)):
                return ("c09:%s:call-not-answered" % t, "%s: caller %d against a healthy service: %r" % (t, k, r))
    # 4. nothing pending after quiescence (hook)
    for p in (obs.get("probes") or []):
        if p["name"] == "end" and p.get("pending"):
            waiting = [k for k in case_callers(case) if str(k) not in res]
            total = sum(p["pending"].values())
            if total != len(waiting) and case["fam"] not in ("wrap", "preset-distance"):
                return ("c09:%s:pending-entries-left" % t, "%s: %d pending entries with %d callers still waiting" % (t, total, len(waiting)))
    return None


def is_filler(case, k):
    for st in case["steps"]:
        if st and st[0] == "quick" and st[2] <= k < st[2] + st[1]:
            return True
    return False


def datagram_may_be_lost(case, obs, k, q):
    """No verdict about the client when the reply cannot be shown to have reached it in time:
    - UDP delivers or drops: a reply counts as arrived only if the client's Receive is seen handling it (table event
      loadAndDelete for that index after the send; needs the hook);
    - on any transport, a reply that Receive handled only AFTER the caller had given up and deleted its entry (loadAndDelete
      finds nothing, after the caller's delete event) simply came too late for the caller's deadline."""
    log = obs["log"]
    idx = next((e["i"] for e in log if e["e"] in ("peer-send",) and e["k"] == k and e["q"] >= q), None)
    lad = next((e for e in log if e["e"] == "t:loadAndDelete" and e["i"] == idx and e["q"] > q), None)
    if lad is None:
        return case.get("transport") == "udp"
    if not lad.get("x"):
        gave_up = next((e["q"] for e in log if e["e"] == "t:delete" and e["k"] == k), None)
        if gave_up is not None and gave_up < lad["q"]:
            return True
    return False


def case_callers(case):
    return sorted({int(s[1]) for s in case["steps"] if s and s[0] in ("call", "invoke")})


def hv_is_env(r):
    return any(x in r for x in ("too many open files", "cannot assign requested address", "no buffer space", "address already in use",
                                "connection refused"))


def reuse_distance(case, obs, k):
    d = reuse_distance_raw(case, obs, k)
    m = MASK.get(case.get("transport"), 2**31 - 1) + 1
    # any multiple of the index period is the same wrap-around: report the period
    return m if d and d % m == 0 else d


def reuse_distance_raw(case, obs, k):
    """If the index drawn by caller k was drawn again on the same connection while the first holder had not returned:
    number of calls issued on the client from the first holder's (exclusive) to the colliding one (inclusive), counted
    on the client side (call-begin events; every scenario uses one connection), plus what the preset accessor added."""
    log = obs["log"]
    draws = [(e["q"], e["k"], e["c"], e["i"]) for e in log if e["e"] == "peer-recv" and e["i"] >= 0]
    begin = {e["k"]: e["q"] for e in log if e["e"] == "call-begin"}
    ret = {e["k"]: e["q"] for e in log if e["e"] == "call-ret"}
    mine = next(((q, c, i) for q, kk, c, i in draws if kk == k), None)
    if mine is None:
        return None

    def distance(first, second):
        a, b = begin.get(first), begin.get(second)
        if a is None or b is None:
            return None
        n = sum(1 for e in log if e["e"] == "call-begin" and a < e["q"] <= b)
        n += sum((e["n"] - e["x"]) & 0xffffffff for e in log if e["e"] == "setctr" and a < e["q"] < b)
        return n
    for q, kk, c, i in draws:
        if kk == k or c != mine[1] or i != mine[2]:
            continue
        if q > mine[0] and q < ret.get(k, 10**12):
            return distance(k, kk)          # k was pending when kk drew its index
        if q < mine[0] and ret.get(kk, 10**12) > mine[0]:
            return distance(kk, k)          # kk was pending when k drew its index
    return None


# ------------------------------------------------------------------------------------ driver

def expand_strayof(case):
    """reverse scripts may name 'the index of caller j (who went to another provider)': that index is only known at
    run time, so such items are turned into plain strays far away; kept simple on purpose."""
    for st in case["steps"]:
        if st and st[0] == "end":
            st[2] = [(["stray", 800000 + it[1]] if it[0] == "strayof" else it) for it in st[2]]
    return case


def run(ctx):
    ctx.level = "proof"
    ctx.assumptions += [
        "one critical section of conn.lock, one atomic.AddInt32, one channel operation is one atomic step (sequential consistency); "
        "the per-entry channel sends of rangeAndClean are merged with the critical section that took the entries",
        "the int32 counter is an unbounded Z in the model: AddInt32 wraps modulo 2^32 and the mask keeps the low 31 (15) bits, so the "
        "index is the call count modulo mask+1 either way (checked at the 31-bit and 15-bit boundaries when the hook is present)",
        "provenance: a reply 'belongs to' the request whose payload it echoes; the scripted peers and the real Service echo the payload",
        "without the hook the interleaving inside the client is not visible: the replay uses the order in which the peer saw requests "
        "and sent replies, and scenarios are built so that this order determines every outcome",
        "a 31-bit index (socket, websocket, reverse) repeats after 2^31 calls on one connection; a call pending for that long is "
        "outside what is exercised (C09_no_reuse_bound covers it; C09_own_response excludes it by its guard)",
    ]
    ctx.prove()
    hv.build_harness("c09")
    hv.build_modelrun("c09")
    hook = hook_present()
    exe = "c09"
    if hook:
        build_hooked("c09")
        exe = "c09hook"
    ctx.note("transport_hooks_in_tree", hook)
    if not hook:
        ctx.note("hook_note", "the tree under test has no verif hooks in rpc/{socket,websocket,udp}: table events are not visible, the "
                 "counter cannot be preset; reduced coverage (scripted peers, real Service, 32,768 real calls for the UDP wrap). "
                 "Apply hooks/c09c10-transports.patch to enable the rest")
    corpus = corpus_cases(ctx, hook)
    ctx.note("corpus_cases", len(corpus))
    cases = corpus + [expand_strayof(c) for c in gen_cases(ctx, hook)]
    heavy = [c for c in cases if c["fam"] in ("wrap", "nowrap")]
    light = [c for c in cases if c["fam"] not in ("wrap", "nowrap")]
    from concurrent.futures import ThreadPoolExecutor
    with ThreadPoolExecutor(max_workers=2) as ex:
        f1 = ex.submit(hv.run_harness_parallel, exe, light, 6, timeout=1500)
        f2 = ex.submit(hv.run_harness_parallel, exe, heavy, max(1, len(heavy)), timeout=1500)
        rc1, obs1, err1 = f1.result()
        rc2, obs2, err2 = f2.result()
    byid = {o["id"]: o for o in obs1 + obs2 if "fatal" not in o}
    if len(byid) != len(cases):
        missing = [c for c in cases if c["id"] not in byid]
        ctx.report("harness-crash", "executor died on case %s: %s" % (json.dumps(missing[0])[:300], (err1 + err2)[-400:]),
                   {"case": missing[0], "stderr": (err1 + err2)[-2000:], "failing_input": True})
        cases = [c for c in cases if c["id"] in byid]
    evaluate(ctx, cases, byid, hook)


def evaluate(ctx, cases, byid, hook):
    lines, meta = [], []
    env = 0
    for c in cases:
        o = byid[c["id"]]
        if o.get("env"):
            env += 1
            continue
        if o.get("note") and not o.get("log"):
            continue
        other_err = [e for e in o["log"] if e["e"] == "script-error" and "no request of caller" not in e.get("s", "")]
        if other_err:
            ctx.report("harness:script-error", "a scenario step could not be executed: %s (hook files present but inoperative?)" % other_err[0].get("s"),
                       {"case": c, "failing_input": False, "correspondence": "executor vs verif hooks"})
            continue
        ops, expect = ops_from_log(c, o)
        lines.append(" ".join(ops))
        meta.append((c, o, ops, expect))
    outs = hv.run_model("c09", lines) if lines else []
    disagreements, hits = [], []
    agree = 0
    for (c, o, ops, expect), out in zip(meta, outs):
        fam = c["fam"]
        nontrivial = fam in ("wrap", "preset-distance", "preset-boundary") or c.get("order") in ("reversed", "random") or \
            c.get("strays", 0) + c.get("dups", 0) > 0
        ctx.count_case(json.dumps([c.get("transport"), fam, c["steps"]], sort_keys=True), nontrivial)
        ctx.bump("family", fam)
        ctx.bump("transport", c.get("transport", "reverse"))
        ctx.bump("events", None, len(o["log"]))
        for r in o["results"].values():
            ctx.bump("outcomes", r.split(":")[0])
        toks, summ = parse_model(out) if not out.startswith("MODEL-ERROR") else ([], {})
        d = compare(c, o, ops, expect, out) if not out.startswith("MODEL-ERROR") else out
        w = oracle(c, o)
        if o.get("_inconclusive"):
            ctx.bump("inconclusive_replies_late_or_possibly_dropped", None, len(o["_inconclusive"]))
        if d:
            disagreements.append((c, o, d, out))
        else:
            agree += 1
            if nontrivial and len(ctx.cov["samples"]) < 4:
                ctx.sample({"family": fam, "transport": c.get("transport"), "results": o["results"],
                            "model": out[-160:], "events": len(o["log"])})
        if w:
            hits.append((c, o, w[0], w[1], out))
        # the model's own verdict must match the oracle's: a swap the model does not explain, or one it predicts and
        # the implementation does not show
        if not d and summ:
            model_bad = summ.get("own") == "false" or summ.get("orphans", "-") != "-"
            if model_bad and not w and fam in ("wrap", "preset-distance"):
                # e.g. the patched tree refuses the colliding index: the finding is gone, the model no longer matches
                disagreements.append((c, o, "model predicts a swapped/lost response (own=%s orphans=%s) that the implementation does not show"
                                      % (summ.get("own"), summ.get("orphans")), out))
        if fam in ("wrap", "preset-distance"):
            ctx.bump("reuse_guard", "violated" if summ.get("reuse_ok") == "false" else "holds")
    ctx.note("environment_trouble_cases", env)
    ctx.note("traces_validated_against_impl", agree)
    ctx.note("disagreeing_cases", len(disagreements))
    ctx.note("rule", "seeded random scenarios per transport: 2..12 concurrent callers, replies in order / reversed / shuffled, strays, "
             "duplicates, unanswered callers with short deadlines; real Service with scripted handler delays; reverse.Caller with scripted "
             "and real providers; index wrap by 32,768 real UDP calls (and by counter preset with the hook). non-trivial = replies not in "
             "request order, or strays/duplicates present, or an index boundary/wrap scenario; distinct by full step list")
    ctx.note("exhaustive", False)
    ctx.note("corpus_passed", sum(1 for c in cases if c.get("corpus")) - len({c["corpus"] for c, _, _, _, _ in hits if c.get("corpus")}))
    hits.sort(key=lambda h: 0 if h[0].get("corpus") else 1)
    seen = set()
    for c, o, key, text, out in hits:
        if key in seen:
            continue
        seen.add(key)
        witness = "C09_full_refuted_udp_old" if "pending-index-reissued-after-32768" in key else None
        if c.get("corpus"):
            text = "corpus case %s (repaired by %s) fails again: %s" % (c["corpus"], c.get("fixed_by"), text)
        ctx.report(key, text, {"case": c, "observation": slim(o), "model": out[-300:], "failing_input": True,
                               "coq_witness": witness})
    if disagreements and not hits:
        c, o, d, out = disagreements[0]
        ctx.report("correspondence:" + c["fam"], "Model/Mux.v no longer matches the implementation (theorems C09_* not transferred): " + d,
                   {"case": c, "observation": slim(o), "model": out[-600:], "failing_input": False, "disagreement": d,
                    "correspondence": "Mux.step vs conn.Transport/store/delete/loadAndDelete/rangeAndClean (reverse: Caller.InvokeContext/end)",
                    "disagreeing_cases": len(disagreements)})
    elif disagreements:
        ctx.note("first_disagreement", disagreements[0][2])


def slim(o):
    o = dict(o)
    if len(o.get("log", [])) > 400:
        o["log"] = o["log"][:150] + [{"e": "... %d events omitted ..." % (len(o["log"]) - 300)}] + o["log"][-150:]
    if len(o.get("results", {})) > 60:
        keep = dict(list(o["results"].items())[:20])
        keep.update({k: v for k, v in o["results"].items() if v != "own"})
        o["results"] = keep
    return o


def replay(ctx, path):
    r = json.load(open(path))
    case = r["case"]
    hv.build_harness("c09")
    hv.build_modelrun("c09")
    exe = "c09"
    if hook_present():
        build_hooked("c09")
        exe = "c09hook"
    elif case.get("hook"):
        print("the tree under test has no transport hooks; apply hooks/c09c10-transports.patch")
        return 3
    rc, obs, err = hv.run_harness(exe, [case], timeout=600)
    if not obs:
        print("harness crashed:", err[-500:])
        return 1
    o = obs[0]
    print(json.dumps(slim(o))[:3000])
    ops, expect = ops_from_log(case, o)
    out = hv.run_model("c09", [" ".join(ops)])[0]
    print("model:", out[-400:])
    print("replay agrees with model:", compare(case, o, ops, expect, out) or "yes")
    w = oracle(case, o)
    print("property oracle:", w)
    return 1 if w else 0
