"""C01: typed round trip Unmarshal(Marshal(v)) ~ v in simple and reference mode.
Proof: Props/C01.v.  Tie: type-exhaustive enumeration through the real Marshal/Unmarshal with the
property's own normalising equality (harness/cmd/io/equal.go), and byte-exact agreement of the encoder
model on the same values."""
import json
import hv, iogen, iorun, iosuite, ioeval


def build_cases(ctx, reg):
    g = iogen.Gen(ctx.rng, reg)
    quick = ctx.tier == "quick"
    cases = iosuite.corpus_cases("C01")
    cases += iogen.scalar_matrix(g)
    cases += iogen.named_scalar_matrix(g)
    cases += iosuite.strings_family(g)
    cases += iosuite.utf8_shapes_family(g, quick)
    cases += iosuite.maps_family(g)
    cases += iosuite.times_family(g)
    cases += iosuite.probe_family(g)
    cases += iosuite.slices2d_family(g)
    cases += iosuite.sequences_family(g, 40 if quick else 600)
    cases += iosuite.graphs_family(g, 6 if quick else 60)
    cases += iosuite.registered(g, reg, 15 if quick else 200)
    # cycles and error values are C02's domain (C01: values of the supported types, pointers to any depth)
    cases = [c for c in cases if not any(x in c.get("tag", "") for x in (":cyc", "selfloop", "tree-self", "cycle", "probe:error", "probefield:error"))]
    return cases


def float32_sweep(ctx):
    """float32 has only 2^32 values: the thorough tier round-trips ALL of them through the real
    Marshal/Unmarshal (top-level field, pointer field), the quick tier a strided sample."""
    stride = 1 if ctx.tier == "thorough" else 65537
    # the range is split over several executor processes (a full sweep is 2^32 round trips)
    nchunks = 16 if stride == 1 else 1
    step = 2**32 // nchunks
    specs = [{"id": i + 1, "sweep": {"from": i * step, "to": (i + 1) * step if i < nchunks - 1 else 2**32, "stride": stride}} for i in range(nchunks)]
    rc, obs, err = hv.run_harness_parallel("io", specs, nproc=nchunks, timeout=3 * 3600)
    parts = [o.get("sweep") for o in obs if o.get("sweep")]
    if len(parts) != nchunks:
        ctx.report("c01:float32-sweep-crashed", "a float32 sweep executor died (%d of %d parts returned): %s" % (len(parts), nchunks, err[-300:]), {"failing_input": True})
        return
    sw = {"count": sum(x["count"] for x in parts), "nbad": sum(x["nbad"] for x in parts), "bad": [b for x in parts for b in (x.get("bad") or [])]}
    ctx.note("float32_sweep", {"values": sw["count"], "stride": stride, "mismatches": sw["nbad"], "exhaustive": stride == 1})
    ctx.cov["evaluations"] += sw["count"]
    if sw["nbad"]:
        ctx.report("c01:float32-roundtrip-mismatch", "float32 values do not round-trip: %s (%d of %d)" % (sw["bad"][:3], sw["nbad"], sw["count"]),
                   {"case": {"sweep_bad": sw["bad"]}, "failing_input": True})


def run(ctx):
    ctx.level = "proof"
    ctx.assumptions += [
        "oracles: strconv/big float text, uuid text and clock fields are taken from the standard library by the harness walker",
        "the Go value is described to the model by reflection (harness/cmd/io/walk.go), including pointer identities",
        "maps with two or more entries are compared by denotation only (iteration order is arbitrary)",
    ]
    ctx.prove()
    reg = iorun.prepare(ctx)
    cases = build_cases(ctx, reg)
    recs, crashes = iorun.run_cases(ctx, cases)
    ioeval.run_property(ctx, recs, crashes, ioeval.c01, "C01")
    float32_sweep(ctx)
    ctx.note("rule", "type-exhaustive scalar matrix (17 kinds x boundary values x 10 container positions), string shapes x positions, "
             "all specialised map key/value pairs, times, reference probes for every referable construct, pointer graphs, random values "
             "of the registered struct types; x {simple, reference} mode; non-trivial = more than 3 output bytes; distinct by (mode,type,value)")


def replay(ctx, path):
    r = json.load(open(path))
    reg = iorun.prepare(ctx)
    c = dict(r["case"])
    recs, crashes = iorun.run_cases(ctx, [c])
    bad = 0
    for rec in recs:
        for m, d in rec["modes"].items():
            f = ioeval.c01(rec, m, d)
            print(m, d["go"].get("hex"), f)
            bad += len(f)
    return 1 if bad or crashes else 0
