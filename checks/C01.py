"""C01: typed round trip Unmarshal(Marshal(v)) ~ v in simple and reference mode.
Proof: Props/C01.v.  Tie: type-exhaustive enumeration through the real Marshal/Unmarshal with the
property's own normalising equality (harness/cmd/io/equal.go), and byte-exact agreement of the encoder
model on the same values."""
import json
import hv, iogen, iorun, iosuite, ioeval


def build_cases(ctx, reg):
    g = iogen.Gen(ctx.rng, reg)
    quick = ctx.tier == "quick"
    cases = iosuite.corpus_cases("C01")
    cases += iogen.scalar_matrix(g)
    cases += iosuite.strings_family(g)
    cases += iosuite.maps_family(g)
    cases += iosuite.times_family(g)
    cases += iosuite.probe_family(g)
    cases += iosuite.graphs_family(g, 6 if quick else 60)
    cases += iosuite.registered(g, reg, 15 if quick else 200)
    # cycles and error values are C02's domain (C01: values of the supported types, pointers to any depth)
    cases = [c for c in cases if not any(x in c.get("tag", "") for x in (":cyc", "selfloop", "tree-self", "cycle", "probe:error", "probefield:error"))]
    return cases


def run(ctx):
    ctx.level = "proof"
    ctx.assumptions += [
        "oracles: strconv/big float text, uuid text and clock fields are taken from the standard library by the harness walker",
        "the Go value is described to the model by reflection (harness/cmd/io/walk.go), including pointer identities",
        "maps with two or more entries are compared by denotation only (iteration order is arbitrary)",
    ]
    ctx.prove()
    reg = iorun.prepare(ctx)
    cases = build_cases(ctx, reg)
    recs, crashes = iorun.run_cases(ctx, cases)
    ioeval.run_property(ctx, recs, crashes, ioeval.c01, "C01")
    ctx.note("rule", "type-exhaustive scalar matrix (17 kinds x boundary values x 10 container positions), string shapes x positions, "
             "all specialised map key/value pairs, times, reference probes for every referable construct, pointer graphs, random values "
             "of the registered struct types; x {simple, reference} mode; non-trivial = more than 3 output bytes; distinct by (mode,type,value)")


def replay(ctx, path):
    r = json.load(open(path))
    reg = iorun.prepare(ctx)
    c = dict(r["case"])
    recs, crashes = iorun.run_cases(ctx, [c])
    bad = 0
    for rec in recs:
        for m, d in rec["modes"].items():
            f = ioeval.c01(rec, m, d)
            print(m, d["go"].get("hex"), f)
            bad += len(f)
    return 1 if bad or crashes else 0
