"""C15 plugin onion: proof (Props/C15.v) + correspondence of Model/Onion.v with the real
pluginManager driven through Client.Use/Unuse, Service.Use/Unuse and real calls
(core.Client -> mock transport -> core.Service), trace-recording handlers of every Go shape.

Three views of every case are compared:
  impl    what the Go executor observed (status of each Use/Unuse, trace and result of each
          call, the installed chains read off a final all-pass probe call)
  model   the extracted Coq model, handler identity = the code pointers the executor reported
  oracle  the property text coded here with plain Python lists, handler identity = pool id
"""
import hashlib
import itertools
import json
import multiprocessing
import os
import re
import sys
import types
from concurrent.futures import ThreadPoolExecutor

import hv

KNOWN_KEY = "unuse-identity-is-code-pointer"
CTX_MARK = {"": None, "cancel": 9001, "deadline": 9002}
sys.setrecursionlimit(100000)

LAYERS = ("CI", "CO", "SO", "SI")
INV_KINDS = {"bi", "fi", "ci", "mi", "pi", "pik", "t", "tk", "ti", "to"}
IO_KINDS = {"bo", "fo", "co", "mo", "po", "pok", "t", "tk", "ti", "to"}
MODEL_REP = 2
BALLAST = 50000        # length of the run of cheap handlers that makes a rebuild take milliseconds
MODEL_KIND = {"bi": "fi", "bo": "fo","fi": "fi", "ci": "fi", "mi": "fi", "fo": "fo", "co": "fo", "mo": "fo",
              "t": "t", "tk": "t", "ti": "ti", "to": "to", "pi": "pi", "pik": "pi",
              "po": "po", "pok": "po", "bad": "bad"}
K_KINDS = {"fi", "fo", "tk", "pik", "pok"}     # kinds whose concrete value is chosen by k


def code_class(e, side):
    """What I claim Go does: which pool entries share reflect.Value.Pointer() on one side."""
    k = e["kind"]
    if k in ("fi", "fo"):
        return (k, e.get("k", 0))
    if k in ("bi", "bo"):
        return (k,)
    if k in ("ci", "co", "mi", "mo"):
        return (k,)
    if k in ("t", "tk", "ti", "to"):
        return ("plugin", side)          # method value taken through the interface `plugin`
    if k in ("pi", "pik"):
        return ("invokePlugin",)
    if k in ("po", "pok"):
        return ("ioPlugin",)
    return ("none", id(e))


# --------------------------------------------------------------------------- generation

def E(kind, k=0, beh="P", mids=None):
    d = {"kind": kind, "k": k, "beh": beh}
    if mids:
        d["mids"] = mids
    return d


EXHAUSTIVE_FLAVOURS = [
    # name, node, pool
    ("client/invoke/distinct-funcs", "c", [E("fi", 0), E("fi", 1), E("fi", 2), E("fi", 3)]),
    ("client/io/distinct-funcs", "c", [E("fo", 0), E("fo", 1), E("fo", 2), E("fo", 3)]),
    ("service/mixed/distinct-funcs", "s", [E("fi", 0), E("fo", 0), E("fi", 1), E("fo", 1)]),
    ("client/mixed/one-of-each-shape", "c", [E("fi", 0), E("fo", 0), E("t"), E("pi")]),
    ("service/mixed/one-of-each-shape", "s", [E("po"), E("ti"), E("mi"), E("co")]),
    ("client/invoke/closures-one-literal", "c", [E("ci"), E("ci"), E("ci"), E("ci")]),
    ("service/io+invoke/method-values", "s", [E("mo"), E("mo"), E("mi"), E("mi")]),
    ("client/two-sided-plugins", "c", [E("t"), E("t"), E("tk", 1), E("to")]),
    ("service/struct-plugins", "s", [E("pi"), E("pik", 1), E("po"), E("tk", 2)]),
]


def gen_exhaustive(ctx, cases):
    """Every sequence of single-handler Use/Unuse of length 0..5 (thorough: 0..6 for five of the
    flavours) over a pool of 4, followed by one call; prefixes are cases of their own."""
    syms = [("U", i) for i in range(4)] + [("X", i) for i in range(4)]
    call = {"op": "C", "toks": [1]}
    for n, (name, node, pool) in enumerate(EXHAUSTIVE_FLAVOURS):
        if ctx.tier == "quick":
            maxlen = 5 if n in (0, 2, 3, 5, 7) else 4       # thorough: 5 for all, 6 for these five
        else:
            maxlen = 6 if n in (0, 2, 3, 5, 7) else 5
        opd = {sy: {"op": sy[0], "node": node, "ix": [sy[1]]} for sy in syms}     # shared, never mutated
        for L in range(0, maxlen + 1):
            for seq in itertools.product(syms, repeat=L):
                ops = [opd[sy] for sy in seq]
                ops.append(call)
                cases.append({"id": len(cases) + 1, "mode": "seq", "flavour": name, "pool": pool, "ops": ops})
    return 5


ALL_KINDS = ["fi", "fo", "ci", "co", "mi", "mo", "t", "tk", "ti", "to", "pi", "pik", "po", "pok"]
DISTINCT_KINDS = ["fi", "fo"]


def gen_pool(rng, n, guard, behaviours, with_bad):
    pool = []
    used = set()
    have_plugin = {"two": False, "pi": False, "po": False}
    while len(pool) < n:
        kind = rng.choice(DISTINCT_KINDS + (["t", "pi", "po", "tk", "ti"] if guard else ALL_KINDS))
        k = rng.randrange(4)
        if kind in K_KINDS and kind in ("fi", "fo"):
            if (kind, k) in used:
                continue                      # the same Go function twice would be one handler
            used.add((kind, k))
        if guard:
            cls = "two" if kind in ("t", "tk", "ti", "to") else kind if kind in ("pi", "po") else None
            if cls:
                if have_plugin[cls]:
                    continue                  # a second struct plugin of a class shares its code pointer
                have_plugin[cls] = True
        pool.append(E(kind, k, rng.choice(behaviours)))
    if with_bad:
        pool.append(E("bad"))
    return pool


def gen_ops(rng, pool, n_ops, nodes, allow_bad, ctxp=0.0, mp=0.2, rp=0.0, fp=0.12):
    valid = [i for i, e in enumerate(pool) if e["kind"] != "bad"]
    ops = []
    for _ in range(n_ops):
        r = rng.random()
        if r < 0.3:
            op = {"op": "C", "toks": [rng.randrange(10) for _ in range(rng.choice([0, 1, 1, 2]))]}
            if rng.random() < ctxp:
                op["ctx"] = rng.choice(["cancel", "deadline"])
            if rng.random() < mp:
                op["m"] = rng.choice(["fail", "boom"])
            if rng.random() < fp:
                op["tf"] = rng.choice([7001, 7001, 7001, 7002, 7003, 7004, 7005, 7006, 7007])
            if rng.random() < rp:
                op["cc"] = rng.choice([1, 1, 2])
                if rng.random() < 0.5:
                    op["ccm"] = "cc"
            ops.append(op)
            continue
        nargs = rng.choice([1, 1, 1, 2, 2, 3, 0])
        src = list(range(len(pool))) if (allow_bad and rng.random() < 0.08) else valid
        ix = [rng.choice(src) for _ in range(nargs)]
        ops.append({"op": "U" if r < 0.7 else "X", "node": rng.choice(nodes), "ix": ix})
    ops.append({"op": "C", "toks": [rng.randrange(10)]})
    if ctxp:
        ops.append({"op": "C", "toks": [rng.randrange(10)], "ctx": rng.choice(["cancel", "deadline"])})
    return ops


def gen_random(ctx, cases, n, label, guard, behaviours, mids):
    rng = ctx.rng
    for _ in range(n):
        pool = gen_pool(rng, rng.randint(2, 6), guard, behaviours, with_bad=rng.random() < 0.3)
        valid = [i for i, e in enumerate(pool) if e["kind"] != "bad"]
        if mids:
            # at most two handlers act in flight, and they only install handlers that do not act
            # themselves: the chains grow by a bounded amount per call (no cascades)
            actors = rng.sample(valid, min(len(valid), rng.choice([0, 1, 1, 2])))
            quiet = [i for i in valid if i not in actors] or valid[:1]
            for a in actors:
                ms = []
                for _ in range(rng.choice([1, 1, 2])):
                    o = rng.choice("UUX")
                    src = quiet if o == "U" else valid
                    ms.append({"op": o, "node": rng.choice("cs"),
                               "ix": [rng.choice(src) for _ in range(rng.choice([1, 1, 2]))]})
                if quiet != valid[:1] or a not in quiet:
                    pool[a]["mids"] = ms
        ops = gen_ops(rng, pool, rng.randint(3, 12 if ctx.tier == "quick" else 30), "cs", allow_bad=True)
        cases.append({"id": len(cases) + 1, "mode": "seq", "flavour": label, "pool": pool, "ops": ops})


def gen_ctx(ctx, cases, n):
    """Calls whose context is already cancelled / past its deadline, and handlers that hand a
    cancelled context to next.  No in-flight Use/Unuse here: the service side of a call the
    transport gave up on runs detached."""
    rng = ctx.rng
    behs = ["P", "P", "P", "K", "K", "S", "E", "A", "F"]
    # systematic: one handler per layer, each in turn cancelling the context for the rest
    base = [E("fi", 0), E("fo", 0), E("fi", 1), E("fo", 1)]
    use = [{"op": "U", "node": "c", "ix": [0, 1]}, {"op": "U", "node": "s", "ix": [2, 3]}]
    for who in (None, 0, 1, 2, 3):
        for b in ("K", "S", "A"):
            pool = [dict(e) for e in base]
            if who is not None:
                pool[who]["beh"] = b
            for cm in ("", "cancel", "deadline"):
                call = {"op": "C", "toks": [4]}
                if cm:
                    call["ctx"] = cm
                cases.append({"id": len(cases) + 1, "mode": "seq", "flavour": "ctx/systematic", "pool": pool,
                              "ops": use + [call, {"op": "C", "toks": [5]}]})
    for _ in range(n):
        guard = rng.random() < 0.7
        pool = gen_pool(rng, rng.randint(2, 6), guard, behs, with_bad=False)
        ops = gen_ops(rng, pool, rng.randint(3, 10), "cs", allow_bad=False, ctxp=0.6)
        cases.append({"id": len(cases) + 1, "mode": "seq", "flavour": "ctx/random", "pool": pool, "ops": ops})


def gen_errors_and_reuse(ctx, cases, n):
    """(a) a call failing below the service IO layer (method error, method panic, an invoke handler
    short-circuiting with an error) with IO handlers installed on both sides: what each handler
    sees coming back; (b) one ClientContext / one context.Context reused for all the calls of a
    history, with Use/Unuse between them."""
    rng = ctx.rng
    base = [E("fi", 0), E("fo", 0), E("fi", 1), E("fo", 1), E("fi", 2, "E"), E("t")]
    for m in ("", "fail", "boom"):
        for extra in ([], [{"op": "U", "node": "s", "ix": [4]}], [{"op": "U", "node": "c", "ix": [5]}, {"op": "U", "node": "s", "ix": [5]}]):
            call = {"op": "C", "toks": [3]}
            if m:
                call["m"] = m
            cases.append({"id": len(cases) + 1, "mode": "seq", "flavour": "errors/systematic", "pool": base,
                          "ops": [{"op": "U", "node": "c", "ix": [0, 1]}, {"op": "U", "node": "s", "ix": [2, 3]}]
                          + extra + [call, {"op": "C", "toks": [4]}]})
    # the innermost client layer fails with each sentinel error / panics; also an inner IO handler
    # answering core.ErrClosed itself (Z), below pass-through and two-sided handlers
    fpool = [E("fi", 0), E("fo", 0), E("t"), E("fo", 1, "Z"), E("fi", 1, "A"), E("fo", 2, "A")]
    for uses in ([0, 1], [0, 1, 2], [2, 4, 5], [1]):
        for f in sorted(FAULT_RES):
            cases.append({"id": len(cases) + 1, "mode": "seq", "flavour": "faults/systematic", "pool": fpool,
                          "ops": [{"op": "U", "node": "c", "ix": uses}, {"op": "U", "node": "s", "ix": [0, 1]},
                                  {"op": "C", "toks": [3], "tf": f}, {"op": "C", "toks": [4]},
                                  {"op": "C", "toks": [6], "tf": f, "cc": 1}, {"op": "C", "toks": [7], "cc": 1}]})
        cases.append({"id": len(cases) + 1, "mode": "seq", "flavour": "faults/systematic", "pool": fpool,
                      "ops": [{"op": "U", "node": "c", "ix": uses + [3]}, {"op": "C", "toks": [3]},
                              {"op": "X", "node": "c", "ix": [3]}, {"op": "C", "toks": [4]}]})
    syms = [("U", i) for i in range(4)] + [("X", i) for i in range(4)]
    for name, node, pool in (EXHAUSTIVE_FLAVOURS[0], EXHAUSTIVE_FLAVOURS[3], EXHAUSTIVE_FLAVOURS[2]):
        for ccm in ("", "cc"):
            for L in range(1, 4):
                for seq in itertools.product(syms, repeat=L):
                    ops = []
                    for o, i in seq:
                        ops.append({"op": o, "node": node, "ix": [i]})
                        c_ = {"op": "C", "toks": [1], "cc": 1}
                        if ccm:
                            c_["ccm"] = ccm
                        ops.append(c_)
                    cases.append({"id": len(cases) + 1, "mode": "seq", "flavour": "reuse/" + name, "pool": pool, "ops": ops})
    behs = ["P", "P", "P", "P", "S", "E", "A", "F", "Z"]
    for _ in range(n):
        pool = gen_pool(rng, rng.randint(2, 6), rng.random() < 0.7, behs, with_bad=False)
        ops = gen_ops(rng, pool, rng.randint(4, 12), "cs", allow_bad=False, mp=0.4, rp=0.7, fp=0.35)
        cases.append({"id": len(cases) + 1, "mode": "seq", "flavour": "errors+reuse/random", "pool": pool, "ops": ops})


MULTI_TARGETS = [("c", "I"), ("c", "O"), ("s", "I"), ("s", "O")]


def gen_multi(ctx, n, ballast):
    """2-4 mutators at once on ONE manager.  Mutator 0 removes a long run of ballast handlers
    (a big list shrinking to a small one), the others Use/Unuse handlers of their own (distinct
    code pointers), so whatever the interleaving the final chain is known per owner
    (C15_disjoint_mutators_independent)."""
    rng = ctx.rng
    out = []
    for i in range(n):
        node, side = MULTI_TARGETS[i % len(MULTI_TARGETS)]
        f = "fi" if side == "I" else "fo"
        pool = [E("bi" if side == "I" else "bo")] + [E(f, k) for k in range(4)]
        nm = rng.choice([2, 3, 3, 4])
        marks = [1, 2, 3, 4]
        rng.shuffle(marks)
        owners = [[0]] + [[] for _ in range(nm - 1)]
        for j, m in enumerate(marks):
            owners[1 + j % (nm - 1)].append(m)
        rounds = []
        for r in range(rng.choice([4, 5, 6])):
            setup = [{"op": "U", "node": node, "ix": [0], "rep": ballast}]
            muts = [[{"op": "X", "node": node, "ix": [0]}]]
            for own in owners[1:]:
                sc = [{"op": "U", "node": node, "ix": [rng.choice(own)]}]
                for _ in range(rng.choice([0, 0, 1, 2])):
                    sc.append({"op": rng.choice("UUX"), "node": node,
                               "ix": [rng.choice(own) for _ in range(rng.choice([1, 1, 2]))]})
                muts.append(sc)
            rounds.append({"setup": setup, "mutators": muts})
        out.append({"id": i + 1, "mode": "multi", "flavour": "concurrent/multi-mutator", "pool": pool,
                    "target": node.upper() + side, "owners": owners, "rounds": rounds})
    return out


def gen_conc(ctx, n):
    rng = ctx.rng
    out = []
    for i in range(n):
        pool = [E("fi", 0), E("fi", 1), E("fo", 0), E("fo", 1), E("t"), E("fi", 2), E("fo", 2)]
        def script(node):
            s = []
            for _ in range(rng.randint(6, 30)):
                s.append({"op": rng.choice("UUX"), "node": node,
                          "ix": [rng.randrange(len(pool)) for _ in range(rng.choice([1, 1, 2, 3]))]})
            return s
        out.append({"id": i + 1, "mode": "conc", "flavour": "concurrent", "pool": pool,
                    "mut_c": script("c"), "mut_s": script("s"),
                    "callers": rng.choice([2, 3, 4]), "gap_us": rng.choice([0, 0, 20, 100])})
    return out


# --------------------------------------------------------------------------- property oracle

def fmt(t):
    return "(" + ",".join(map(str, t)) + ")"


def rs(x):
    if x[0] == "ok":
        return "ok" + fmt(x[1])
    if x[0] == "panic":
        return "panic"
    return "%s(%d)" % (x[0], x[1])          # err(n): a Go error; werr(n): error bytes, nil error


# scripted fault of the innermost client layer -> what the transport answers
FAULT_RES = {7001: ("err", 9101), 7002: ("err", 9102), 7003: ("err", 9001), 7004: ("err", 9002),
             7005: ("err", 9103), 7006: ("err", 55), 7007: ("panic",)}
METH_MARK = {"": None, "echo": None, "fail": 8001, "boom": 8002}


def back(L, x):
    """What the built-in handler of layer L hands back to L's innermost handler: errors travel
    back through every layer, in the form that layer's interface has."""
    if L == "CI" and x[0] == "werr":
        return ("err", x[1])                # Client.Call: the codec decodes error bytes into an error
    if L == "CO" and x[0] == "err":
        return ("werr", x[1])               # Service.Handle: a failure goes over the wire as error bytes
    if L == "SO" and x[0] == "panic":
        return ("err", 78)                  # Service.Process recovers a panic of the invoke chain / method
    return x


def simulate(case, key, nocut=False, cuts=None):
    """The property text on plain lists.  key(side, pool index) = the identity Unuse goes by.
    Returns (outs, final) in the executor's vocabulary."""
    pool = case["pool"]
    st = {L: [] for L in LAYERS}

    def apply(op):
        ixs = op["ix"]
        if any(pool[i]["kind"] == "bad" for i in ixs):
            return "panic-invalid"            # SeparatePluginHandlers panics before anything changes
        inv = [i for i in ixs if pool[i]["kind"] in INV_KINDS]
        io = [i for i in ixs if pool[i]["kind"] in IO_KINDS]
        LI, LO = ("CI", "CO") if op["node"] == "c" else ("SI", "SO")
        if op["op"] == "U":
            st[LI] = st[LI] + inv
            st[LO] = st[LO] + io
        else:
            ki = {key("I", i) for i in inv}
            ko = {key("O", i) for i in io}
            st[LI] = [h for h in st[LI] if key("I", h) not in ki]
            st[LO] = [h for h in st[LO] if key("O", h) not in ko]
        return "ok"

    def call(toks, ctx=None, meth=None, fault=None, probe=False):
        """ctx: None live, 9001 cancelled, 9002 deadline passed; meth: None echo, 8001 fail, 8002 boom.
        The property does not mention the context: every installed handler runs, in order, whatever
        its state.  Only the transport (not a plugin) gives up on a done context: it answers
        ctx.Err() instead of the response.  Results AND errors travel back through every handler."""
        ev = []

        def shown(req, ctx):
            return fmt(([ctx] if ctx else []) + ([meth] if meth else []) + ([fault] if fault else []) + req)

        def level(li, req, ctx):
            if li == 4:
                ev.append("*" + shown(req, ctx))
                return ("ok", req + [99]) if meth is None else ("err", 77) if meth == 8001 else ("panic",)
            return run(LAYERS[li], list(st[LAYERS[li]]), 0, li, req, ctx)   # the list installed NOW

        def run(L, chain, pos, li, req, ctx):
            if pos == len(chain):
                if L == "CO" and fault:
                    # the innermost layer fails: each handler above was entered once; what it answered
                    # travels back unchanged through every one of them (nobody retries or swallows)
                    return FAULT_RES[fault]
                if L == "CO" and ctx and not nocut:
                    if cuts is not None:
                        cuts.add(len(outs))
                    return ("err", ctx)      # Client.Transport -> transport: select on ctx.Done()
                return back(L, level(li + 1, req, ctx))
            h = chain[pos]
            e = pool[h]
            hid = h + 1
            lab = "%s.%d" % (L, hid)
            ev.append("+" + lab + shown(req, ctx))
            beh = "P" if probe else e.get("beh", "P")
            if not probe:
                for m in e.get("mids", ()):
                    apply(m)
            if beh == "S":
                x = ("ok", [hid + 200])
            elif beh == "E":
                x = ("err", hid)
            elif beh == "Z":
                x = ("err", 9101)            # core.ErrClosed
            elif beh == "A":
                x = run(L, chain, pos + 1, li, req + [hid], ctx)
                if x[0] == "ok":
                    x = ("ok", x[1] + [hid + 100])
            elif beh == "F":
                x = run(L, chain, pos + 1, li, req, ctx)
                if x[0] != "panic":
                    x = ("err", hid)
            elif beh == "K":
                x = run(L, chain, pos + 1, li, req, ctx or 9001)   # next gets a cancelled context
            else:
                x = run(L, chain, pos + 1, li, req, ctx)
            if x[0] != "panic":              # a panic unwinds through the handler: nothing recorded
                ev.append("-" + lab + "=" + rs(x))
            return x

        x = level(0, list(toks), ctx)
        return ";".join(ev), rs(x)

    outs = []
    for op in case.get("ops", ()):
        if op["op"] == "C":
            t, r = call(op["toks"], CTX_MARK.get(op.get("ctx") or ""), METH_MARK.get(op.get("m") or ""),
                        op.get("tf") or None)
            outs.append("call:" + t + "=>" + r)
        else:
            outs.append(apply(op))
    final = " ".join("%s=%s" % (L, ",".join(str(h + 1) for h in st[L])) for L in LAYERS)
    return outs, final


# --------------------------------------------------------------------------- model side

def model_line(case, obs, mode="SEQ", ops=None):
    codes = {}

    def code(p):
        if p == 0:
            return 0
        return codes.setdefault(p, len(codes) + 1)

    def mop(m):
        ix = list(m["ix"]) * min(m.get("rep") or 1, MODEL_REP)     # long ballast runs are scaled down
        return [m["op"], m["node"], str(len(ix))] + [str(i) for i in ix]

    parts = [mode, "P", str(len(case["pool"]))]
    for i, e in enumerate(case["pool"]):
        mids = e.get("mids", [])
        parts += [MODEL_KIND[e["kind"]], str(code(obs["ptr_i"][i])), str(code(obs["ptr_o"][i])), str(i + 1),
                  e.get("beh", "P"), str(len(mids))]
        for m in mids:
            parts += mop(m)
    ops = case.get("ops", []) if ops is None else ops
    parts += ["O", str(len(ops))]
    for op in ops:
        if op["op"] == "C":
            toks = (([CTX_MARK[op["ctx"]]] if op.get("ctx") else []) +
                    ([METH_MARK[op["m"]]] if METH_MARK.get(op.get("m") or "") else []) +
                    ([op["tf"]] if op.get("tf") else []) + list(op["toks"]))
            parts += ["C", str(len(toks))] + [str(t) for t in toks]
        else:
            parts += mop(op)
    return " ".join(parts)


def run_parallel_harness(cases, race=False, workers=12):
    if not cases:
        return 0, [], ""
    n = max(1, min(workers, len(cases) // 2000 + 1))
    chunks = [cases[i::n] for i in range(n)]
    with ThreadPoolExecutor(n) as ex:
        rs_ = list(ex.map(lambda ch: hv.run_harness("c15", ch, race=race), chunks))
    rc = max(r[0] for r in rs_)
    obs = [o for r in rs_ for o in r[1]]
    err = "".join(r[2] for r in rs_ if r[0] != 0)
    return rc, obs, err


def run_parallel_model(lines, workers=12):
    if not lines:
        return []
    n = max(1, min(workers, len(lines) // 2000 + 1))
    idx = [list(range(i, len(lines), n)) for i in range(n)]
    with ThreadPoolExecutor(n) as ex:
        outs = list(ex.map(lambda ix: hv.run_model("c15", [lines[j] for j in ix]), idx))
    res = [None] * len(lines)
    for ix, o in zip(idx, outs):
        for j, v in zip(ix, o):
            res[j] = v
    return res


def shared_code(case, obs):
    for ptrs in (obs["ptr_i"], obs["ptr_o"]):
        nz = [p for p in ptrs if p]
        if len(nz) != len(set(nz)):
            return True
    return False


def project(outs, cuts):
    """Calls (by op index) whose done context reached the transport: it gives up at once while
    the service side keeps working, detached; those events land in the trace at arbitrary places
    and are not part of what the caller's chain did.  Drop service-side and core events of such
    calls.  Which calls these are is decided by the property oracle, not by the observation."""
    res = list(outs)
    for k in cuts:
        if k < len(res) and res[k].startswith("call:"):
            body, _, r = res[k][5:].rpartition("=>")
            keep = [e for e in body.split(";") if e and not (e[0] == "*" or e[1:2] == "S")]
            res[k] = "call:" + ";".join(keep) + "=>" + r
    return res


def first_diff(a_outs, a_final, b_outs, b_final):
    for k, (x, y) in enumerate(zip(a_outs, b_outs)):
        if x != y:
            kind = "call-trace" if x.startswith("call:") or y.startswith("call:") else "status"
            return kind, "op %d: observed %s, expected %s" % (k, x, y)
    if len(a_outs) != len(b_outs):
        return "outs-length", "%d outcomes observed, %d expected" % (len(a_outs), len(b_outs))
    if a_final != b_final:
        return "installed-chain", "installed chains observed %s, expected %s" % (a_final, b_final)
    return None, None


def describe(case):
    def o(op):
        if op["op"] == "C":
            return "%s%s%s%s" % ({"fail": "CallFail", "boom": "CallBoom"}.get(op.get("m") or "", "Call"),
                                 fmt(op["toks"]) + ("[transport fault %d]" % op["tf"] if op.get("tf") else ""),
                                 "[reused context %d%s]" % (op["cc"], "/" + op["ccm"] if op.get("ccm") else "") if op.get("cc") else "", {"cancel": "[ctx cancelled]", "deadline": "[ctx deadline passed]"}.get(op.get("ctx") or "", ""))
        return "%s.%s(%s)" % ("client" if op["node"] == "c" else "service",
                              "Use" if op["op"] == "U" else "Unuse", ",".join("h%d" % (i + 1) for i in op["ix"]))
    pool = ",".join("h%d:%s%s" % (i + 1, e["kind"], "" if e.get("beh", "P") == "P" else "/" + e["beh"])
                    for i, e in enumerate(case["pool"]))
    return "pool[%s] %s" % (pool, "; ".join(o(op) for op in case.get("ops", [])))


# --------------------------------------------------------------------------- sequential cases

_CASES = []          # set before the worker pool forks; workers address cases by index range


def seq_worker(rng_):
    """Runs executor + model + oracles on cases[lo:hi]; returns a summary (no ctx in workers)."""
    lo, hi = rng_
    cases = _CASES[lo:hi]
    S = {"n": 0, "digests": set(), "by_flavour": {}, "outcomes": {}, "agree": 0, "pattern_mismatch": 0,
         "inconclusive": 0, "known_n": 0, "known": [], "other_n": 0, "other": [], "corr_n": 0, "corr": [], "reports": [],
         "samples": []}
    rc, obs, err = hv.run_harness("c15", cases, extra_env={"GOMAXPROCS": "2"})
    byid = {o["id"]: o for o in obs}
    if rc != 0 or len(byid) != len(cases):
        first = next((c for c in cases if c["id"] not in byid), None)
        S["reports"].append(("harness-crash", "executor process died (rc=%d) around %s: %s"
                             % (rc, describe(first) if first else "?", err[-400:]),
                             {"case": first, "stderr": err[-2000:], "failing_input": True}))
        cases = [c for c in cases if c["id"] in byid]
    mouts = hv.run_model("c15", [model_line(c, byid[c["id"]]) for c in cases])
    ident = lambda side, i: i
    for c, ml in zip(cases, mouts):
        o = byid[c["id"]]
        cuts = set()
        p_outs, p_final = simulate(c, ident, cuts=cuts)
        raw_outs = o.get("outs", [])
        i_outs, i_final = (project(raw_outs, cuts) if cuts else raw_outs), o.get("final", "")
        seg = ml.split(" || ")
        if len(seg) != 4:
            S["reports"].append(("model-error", "model runner failed: " + ml[:200], {"case": c, "failing_input": False}))
            continue
        m_outs = seg[0].split(" | ") if seg[0] else []
        m_final = seg[1][len("final "):]
        m_lists = seg[2][len("lists "):]
        specagree = seg[3] == "specagree=true"
        shared = shared_code(c, o)
        # my claim about which Go values share a code pointer, against the pointers observed
        for side, ptrs in (("I", o["ptr_i"]), ("O", o["ptr_o"])):
            seen = {}
            for e, p in zip(c["pool"], ptrs):
                if p:
                    cl = code_class(e, side)
                    if seen.setdefault(cl, p) != p or [k for k, v in seen.items() if v == p and k != cl]:
                        S["pattern_mismatch"] += 1
        nontrivial = (i_final.count(",") >= 1 or any(x.count("+") >= 2 for x in i_outs))
        S["n"] += 1
        if nontrivial:
            S["digests"].add(hashlib.sha1(json.dumps([c["pool"], c["ops"]], sort_keys=True).encode()).digest()[:10])
        S["by_flavour"][c["flavour"]] = S["by_flavour"].get(c["flavour"], 0) + 1
        for x in i_outs:
            k = "call" if x.startswith("call:") else x
            S["outcomes"][k] = S["outcomes"].get(k, 0) + 1
        if m_final != m_lists:
            S["reports"].append(("model-incoherent", "model's installed closure differs from its list (contradicts "
                                 "C15_never_corrupts)", {"case": c, "model": ml, "failing_input": False}))
        if not shared and not specagree:
            S["reports"].append(("model-vs-spec", "extracted model and list specification disagree under the guard "
                                 "(contradicts C15_refines_spec_partial)", {"case": c, "model": ml, "failing_input": False}))
        # the property text, handler identity = pool id
        key_code = lambda side, i: (o["ptr_i"] if side == "I" else o["ptr_o"])[i]

        def reconcile(proj_outs, exp_outs, cutset, key):
            """select{ctx.Done(), response} in the transport: with a done context the response can
            (rarely) win the race; such a call is accepted as delivered, and counted."""
            alt = None
            for k in sorted(cutset):
                if k < len(proj_outs) and k < len(exp_outs) and proj_outs[k] != exp_outs[k]:
                    if alt is None:
                        alt, _ = simulate(c, key, nocut=True)
                    if raw_outs[k] == alt[k]:
                        proj_outs[k] = exp_outs[k] = raw_outs[k]
                        S["inconclusive"] += 1

        i_outs = list(i_outs)
        reconcile(i_outs, p_outs, cuts, ident)
        pk, pwhy = first_diff(i_outs, i_final, p_outs, p_final)
        # the model goes by code pointer: which calls reach the transport with a done context can
        # differ from the identity oracle's when handlers share code
        ic_outs, c_outs, c_final, cc = i_outs, None, None, cuts
        if shared and (cuts or pk is not None):
            cc = set()
            c_outs, c_final = simulate(c, key_code, cuts=cc)
            ic_outs = project(raw_outs, cc) if cc else list(raw_outs)
            reconcile(ic_outs, c_outs, cc, key_code)
        m_cmp = list(ic_outs)
        reconcile(m_cmp, m_outs, cc, key_code)
        mk, mwhy = first_diff(m_cmp, i_final, m_outs, m_final)
        if pk is not None:
            # does the behaviour equal "Unuse goes by code pointer", and is that the whole difference?
            if c_outs is None:
                c_outs, c_final = simulate(c, key_code)
            ck, _ = first_diff(ic_outs, i_final, c_outs, c_final)
            if shared and ck is None:
                S["known_n"] += 1
                S["known"].append((c, o, pwhy))
                S["known"].sort(key=lambda t: (len(t[0]["ops"]), len(t[0]["pool"]), t[0]["id"]))
                del S["known"][2:]
            else:
                S["other_n"] += 1
                S["other"].append((c, o, pk, pwhy))
                S["other"].sort(key=lambda t: (len(t[0]["ops"]), len(t[0]["pool"]), t[0]["id"]))
                del S["other"][2:]
        elif mk is not None:
            S["corr_n"] += 1
            if len(S["corr"]) < 2:
                S["corr"].append((c, o, mwhy, ml))
        if mk is None:
            S["agree"] += 1
            if nontrivial and len(S["samples"]) < 2 and (c["id"] * 2654435761) % 1000 < 2:
                S["samples"].append({"case": describe(c), "observed": i_outs[-1][:300], "installed": i_final})
    return S


def check_seq(ctx, cases):
    global _CASES
    _CASES = cases
    # ./check loads this file under a name that is not in sys.modules; the (forked) pool workers
    # find seq_worker by that name
    if __name__ not in sys.modules:
        shim = types.ModuleType(__name__)
        shim.seq_worker = seq_worker
        sys.modules[__name__] = shim
    step = 8000
    ranges = [(i, min(i + step, len(cases))) for i in range(0, len(cases), step)]
    with multiprocessing.get_context("fork").Pool(min(14, max(1, len(ranges)))) as pool:
        sums = pool.map(seq_worker, ranges, chunksize=1)
    known_cases, other, corr = [], [], []
    known_n = other_n = corr_n = 0
    for S in sums:
        ctx.cov["evaluations"] += S["n"]
        ctx._distinct |= S["digests"]
        for k, v in S["by_flavour"].items():
            ctx.bump("by_flavour", k, v)
        for k, v in S["outcomes"].items():
            ctx.bump("observed_outcomes", k, v)
        ctx.bump("traces_validated_against_impl", None, S["agree"])
        ctx.bump("identity_assumption_mismatches", None, S["pattern_mismatch"])
        ctx.bump("inconclusive_transport_race_calls", None, S["inconclusive"])
        for key, what, rep in S["reports"]:
            ctx.report(key, what, rep)
        for smp in S["samples"]:
            ctx.sample(smp, limit=5)
        known_cases += S["known"]
        other += S["other"]
        corr += S["corr"]
        known_n += S["known_n"]
        other_n += S["other_n"]
        corr_n += S["corr_n"]
    ident = lambda s_, i: i
    if known_cases:
        known_cases.sort(key=lambda t: (len(t[0]["ops"]), len(t[0]["pool"]), t[0]["id"]))
        c, o, why = known_cases[0]
        ctx.bump("known_finding_cases", None, known_n)
        ctx.report(KNOWN_KEY,
                   "Unuse identifies a handler by reflect.ValueOf(h).Pointer(), the code pointer: distinct handlers "
                   "sharing code (closures of one func literal, method values of one method, and ALL struct plugins, "
                   "whose methods are taken through the interfaces plugin/invokePlugin/ioPlugin) are removed together. "
                   "Minimal history: %s -- %s" % (describe(c), why),
                   {"case": c, "observed": o, "expected_by_property": simulate(c, ident),
                    "failing_input": True, "cases_hit": known_n,
                    "coq_witness": "Props/C15.v: C15_same_code_refuted"})
    other.sort(key=lambda t: (len(t[0]["ops"]), len(t[0]["pool"]), t[0]["id"]))
    for c, o, pk, why in other[:1]:
        ctx.report("onion:" + pk, "%s -- %s" % (describe(c), why),
                   {"case": c, "observed": o, "expected_by_property": simulate(c, ident),
                    "failing_input": True, "cases_failing": other_n})
    if corr and not other:
        c, o, why, ml = corr[0]
        ctx.report("correspondence", "Model/Onion.v no longer matches the plugin manager (theorems C15_* not "
                   "transferred): %s -- %s" % (describe(c), why),
                   {"case": c, "observed": o, "model": ml, "failing_input": False,
                    "correspondence": "Onion.run vs Client/Service Use, Unuse, InvokeContext",
                    "disagreeing_cases": corr_n})
    ctx.note("property_failing_cases_other_than_known", other_n)
    ctx.note("correspondence_disagreements", corr_n)
    return known_n, other_n, corr_n


# --------------------------------------------------------------------------- concurrent cases

_EV = re.compile(r'^\+([CS][IO])\.(\d+)\(')


def chains_of_trace(trace):
    ch = {L: [] for L in LAYERS}
    for ev in trace.split(";"):
        m = _EV.match(ev)
        if m:
            ch[m.group(1)].append(int(m.group(2)))
    return ch


def onion_string(ch, toks):
    req = fmt(toks)
    res = "ok" + fmt(toks + [99])
    ev = []
    for L in LAYERS:
        ev += ["+%s.%d%s" % (L, h, req) for h in ch[L]]
    ev.append("*" + req)
    for L in reversed(LAYERS):
        ev += ["-%s.%d=%s" % (L, h, res) for h in reversed(ch[L])]
    return ";".join(ev), res


def parse_states(line):
    out = []
    for s in line.split(" | "):
        d = {}
        for kv in s.split(" "):
            k, _, v = kv.partition("=")
            d[k] = [int(x) for x in v.split(",") if x]
        out.append(d)
    return out


def check_conc(ctx, cases, race):
    if not cases:
        return
    rc, obs, err = run_parallel_harness(cases, race=race, workers=4)
    byid = {o["id"]: o for o in obs}
    if race and "DATA RACE" in err:
        ctx.report("conc:data-race", "the race detector fired while Use/Unuse ran concurrently with calls: " + err[:600],
                   {"stderr": err[:4000], "failing_input": True})
    if rc != 0 or len(byid) != len(cases):
        first = next((c for c in cases if c["id"] not in byid), None)
        ctx.report("conc:crash", "executor died (rc=%d) during concurrent Use/Unuse and calls: %s" % (rc, err[-600:]),
                   {"case": first, "stderr": err[-3000:], "failing_input": True})
        cases = [c for c in cases if c["id"] in byid]
    lines = []
    for c in cases:
        o = byid[c["id"]]
        lines.append(model_line(c, o, "CONC", c["mut_c"]))
        lines.append(model_line(c, o, "CONC", c["mut_s"]))
    mo = hv.run_model("c15", lines)
    for n, c in enumerate(cases):
        o = byid[c["id"]]
        cstates = parse_states(mo[2 * n])
        sstates = parse_states(mo[2 * n + 1])
        ctx.count_case("conc" + json.dumps([c["mut_c"], c["mut_s"]]), nontrivial=len(o.get("distinct", [])) > 2)
        ctx.bump("by_flavour", "concurrent")
        ctx.bump("conc_calls_observed", None, sum(len(s) for s in o.get("seqs", [])))
        ctx.bump("conc_distinct_traces", None, len(o.get("distinct", [])))
        bad = None
        if o.get("panics"):
            bad = ("panic", "Use/Unuse panicked: %s" % o["panics"][:3])
        parsed = []
        for d in o.get("distinct", []):
            ch = chains_of_trace(d["trace"])
            parsed.append(ch)
            toks = None
            m = re.search(r'\*\(([\d,]*)\)', d["trace"])
            if m is not None:
                toks = [int(x) for x in m.group(1).split(",") if x]
            if toks is None or (d["trace"], d["res"]) != onion_string(ch, toks):
                bad = bad or ("corrupt-trace", "a call's trace is not an onion: %s => %s" % (d["trace"][:400], d["res"]))
        want_final = " ".join("%s=%s" % (L, ",".join(map(str, (cstates if L[0] == "C" else sstates)[-1][L])))
                              for L in LAYERS)
        if o.get("final") != want_final and not bad:
            bad = ("final-state", "after all Use/Unuse had returned the installed chains are [%s], the scripts give [%s]"
                   % (o.get("final"), want_final))
        if not bad:
            for k, seq in enumerate(o.get("seqs", [])):
                lbc = lbs = 0
                for pos, di in enumerate(seq):
                    ch = parsed[di]
                    # reads happen in the order CI, CO, SO, SI; each node's states only move forward
                    i = next((x for x in range(lbc, len(cstates)) if cstates[x]["CI"] == ch["CI"]), None)
                    j = None if i is None else next((x for x in range(i, len(cstates)) if cstates[x]["CO"] == ch["CO"]), None)
                    a = next((x for x in range(lbs, len(sstates)) if sstates[x]["SO"] == ch["SO"]), None)
                    b = None if a is None else next((x for x in range(a, len(sstates)) if sstates[x]["SI"] == ch["SI"]), None)
                    if j is None or b is None:
                        bad = ("stale-or-torn-chain",
                               "caller %d call %d ran chains %s that are not the lists of any reachable moment "
                               "(at or after its previous call)" % (k, pos, ch))
                        break
                    lbc, lbs = j, b
                if bad:
                    break
                last = o["last"][k]
                if last >= 0:
                    ch = parsed[last]
                    want = {"CI": cstates[-1]["CI"], "CO": cstates[-1]["CO"], "SO": sstates[-1]["SO"], "SI": sstates[-1]["SI"]}
                    if ch != want:
                        bad = ("stale-after-quiescence", "a call started after every Use/Unuse had returned ran %s, installed is %s" % (ch, want))
                        break
        if bad:
            ctx.report("conc:" + bad[0], bad[1], {"case": c, "observed": o, "failing_input": True})
        else:
            ctx.bump("conc_cases_valid")


def check_multi(ctx, cases, race=False):
    """Several mutators at once on one manager.  What is validated: after ALL mutators have
    returned, a call runs exactly the onion of the final list -- the installed closure is the chain
    of the CURRENT list after every schedule (C15_concurrent_mutators_coherent / C15_never_corrupts)
    -- and each owner's handlers are installed as if it had run alone
    (C15_disjoint_mutators_independent)."""
    if not cases:
        return
    rc, obs, err = run_parallel_harness(cases, race=race, workers=3)
    byid = {o["id"]: o for o in obs}
    if race and "DATA RACE" in err:
        ctx.report("conc:data-race", "the race detector fired while several mutators ran at once: " + err[:600],
                   {"stderr": err[:4000], "failing_input": True})
    if rc != 0 or len(byid) != len(cases):
        first = next((c for c in cases if c["id"] not in byid), None)
        ctx.report("conc:crash", "executor died (rc=%d) while several mutators ran at once: %s" % (rc, err[-600:]),
                   {"case": first, "stderr": err[-3000:], "failing_input": True})
        cases = [c for c in cases if c["id"] in byid]
    lines, where = [], []
    for c in cases:
        o = byid[c["id"]]
        cum = []
        for j, rd in enumerate(c["rounds"]):
            cum = cum + rd["setup"] + [op for sc in rd["mutators"] for op in sc]   # one linearisation
            lines.append(model_line(c, o, "CONC", cum))
            where.append((c, j))
    mo = hv.run_model("c15", lines)
    failed = set()
    for (c, j), ml in zip(where, mo):
        o = byid[c["id"]]
        if c["id"] in failed or j >= len(o.get("rounds", [])):
            continue
        ro = o["rounds"][j]
        want = parse_states(ml)[-1]
        got = chains_of_trace(ro["trace"])
        L = c["target"]
        rep_ = c["rounds"][j]["setup"][0]["rep"]
        bad = None
        if o.get("panics"):
            bad = "Use/Unuse panicked: %s" % o["panics"][:3]
        for d in [{"trace": ro["trace"], "res": ro["res"]}] + ro.get("during", []):
            if (d["trace"], d["res"]) != onion_string(chains_of_trace(d["trace"]), [7]):
                bad = bad or "a call's trace is not an onion: %s => %s" % (d["trace"][:300], d["res"])
        want_ballast = want[L].count(1) // min(rep_, MODEL_REP) * rep_
        if not bad and ro["ballast"] != want_ballast:
            bad = ("round %d: after every mutator had returned (Unuse of the %d ballast handlers included) a call "
                   "still went through %d ballast handlers, the final list has %d: a stale chain is installed"
                   % (j, rep_, ro["ballast"], want_ballast))
        for own in c["owners"][1:]:
            ids = {m + 1 for m in own}
            a = [h for h in got[L] if h in ids]
            b = [h for h in want[L] if h in ids]
            if not bad and a != b:
                bad = ("round %d: the handlers %s of one mutator are installed as %s; its own operations give %s "
                       "whatever the other mutators did" % (j, sorted(ids), a, b))
        other_layers = [X for X in LAYERS if X != L and got[X]]
        if not bad and (other_layers or sorted(got[L]) != sorted(h for h in want[L] if h != 1)):
            bad = "round %d: installed %s, final list %s" % (j, got, want)
        ctx.count_case("multi%d/%d" % (c["id"], j) + json.dumps(c["rounds"][j]), nontrivial=True)
        ctx.bump("by_flavour", c["flavour"])
        ctx.bump("multi_mutator_rounds")
        if bad:
            failed.add(c["id"])
            ctx.report("conc:multi-mutator-final-chain", "%d mutators at once on manager %s: %s"
                       % (len(c["rounds"][j]["mutators"]), L, bad),
                       {"case": c, "observed": {"rounds": [{k: v for k, v in r.items() if k != "during"}
                                                           for r in o["rounds"]]},
                        "round": j, "failing_input": True,
                        "theorems": "C15_concurrent_mutators_coherent, C15_disjoint_mutators_independent"})
        else:
            ctx.bump("multi_mutator_rounds_valid")


# --------------------------------------------------------------------------- entry points

def run(ctx):
    ctx.level = "proof"
    ctx.assumptions += [
        "handler identity in the model is {code; inst}; code is reflect.Value.Pointer() as reported by the executor "
        "for every pool entry (an input of the model run, like a clock reading)",
        "closures built by getNextHandler are modelled defunctionalised (CWrap h next): immutable heap objects",
        "concurrency: the critical sections of pluginManager's RWMutex (one manager's Use, Unuse, Handler()) are the "
        "atomic steps of the LTS; handler bodies do not touch the managers between two reads",
        "a call is not atomic across the four managers: each manager is read when the call reaches it "
        "(C15_two_sided_half_seen_witness); the property is read per manager",
    ]
    import time
    T = [time.time()]
    phases = {}

    def lap(name):
        T.append(time.time())
        phases[name] = round(T[-1] - T[-2], 1)

    ctx.prove()
    lap("prove")
    hv.build_harness("c15")
    hv.build_modelrun("c15")
    lap("build")
    quick = ctx.tier == "quick"
    cases = []
    maxlen = gen_exhaustive(ctx, cases)
    n_exh = len(cases)
    beh_all = ["P", "P", "P", "S", "E", "A", "A", "F", "Z"]
    gen_random(ctx, cases, 1500 if quick else 30000, "random/guarded/behaviours+in-flight", True, beh_all, True)
    gen_random(ctx, cases, 1500 if quick else 30000, "random/any-shape/behaviours+in-flight", False, beh_all, True)
    gen_random(ctx, cases, 1000 if quick else 20000, "random/any-shape/pass-through", False, ["P"], False)
    gen_ctx(ctx, cases, 1500 if quick else 30000)
    gen_errors_and_reuse(ctx, cases, 1500 if quick else 30000)
    lap("generate")
    nk, no, nc = check_seq(ctx, cases)
    lap("sequential")
    conc = gen_conc(ctx, 40 if quick else 400)
    check_conc(ctx, conc, race=False)
    lap("concurrent")
    check_multi(ctx, gen_multi(ctx, 8 if quick else 48, BALLAST))
    lap("multi-mutator")
    if not quick:
        try:
            hv.build_harness("c15", race=True)
            check_conc(ctx, gen_conc(ctx, 60), race=True)
            check_multi(ctx, gen_multi(ctx, 8, 5000), race=True)
            ctx.note("race_build", "run")
        except hv.EnvError as e:
            ctx.note("race_build", "unavailable: " + str(e)[:200])
    ctx.note("phase_seconds", phases)
    ctx.note("exhaustive", True)
    ctx.note("exhaustive_cases", n_exh)
    ctx.note("rule", "exhaustive: every sequence of single-handler Use/Unuse of length 0..%d (quick: 0..4 for four of the flavours) over a pool of 4, followed by "
             "a call and an all-pass probe of the installed chains (thorough: length 0..6 for five of them), for %d pool flavours (client invoke / client IO / "
             "service, distinct functions, closures of one literal, method values, two-sided and one-sided struct "
             "plugins); seeded random histories (multi-argument Use/Unuse on client and service, invalid values, "
             "short-circuit / alter / error behaviours, Use/Unuse issued by handlers while a call is inside them); "
             "the innermost client layer (transport) failing with core.ErrClosed / ErrTimeout / context errors / "
             "InvalidResponseError / a plain error / a panic, and an inner IO handler answering ErrClosed; "
             "calls of a method that fails or panics (what every handler sees coming back, on both sides); one "
             "ClientContext / context.Context reused across calls with Use/Unuse in between; "
             "calls with an already cancelled / expired context and handlers that cancel the context for next; "
             "concurrent mutators vs callers; 2-4 simultaneous mutators on one manager over %d ballast handlers, "
             "final chain checked after each round. non-trivial = some call ran >= 2 handlers or >= 2 handlers stayed installed; "
             "distinct by (pool, ops)" % (maxlen, len(EXHAUSTIVE_FLAVOURS), BALLAST))
    ctx.note("observation", "a call reads the four managers at four different moments; a Use/Unuse made while a call is "
             "between two of them is seen by the rest of that call (model: C15_two_sided_half_seen_witness; exercised "
             "deterministically by the in-flight cases)")


def replay(ctx, path):
    r = json.load(open(path))
    c = r["case"]
    hv.build_harness("c15")
    hv.build_modelrun("c15")
    rc, obs, err = hv.run_harness("c15", [c])
    if not obs:
        print("executor crashed:", err[-1000:])
        return 1
    o = obs[0]
    print("case:", describe(c))
    print("observed:", json.dumps(o))
    if c.get("mode") in ("conc", "multi"):
        (check_conc if c["mode"] == "conc" else check_multi)(ctx, [c], race=False)
        for k, what, _ in ctx.violations:
            print("violation:", k, what)
        return 1 if ctx.violations else 0
    print("model   :", hv.run_model("c15", [model_line(c, o)])[0])
    p_outs, p_final = simulate(c, lambda side, i: i)
    print("property:", json.dumps({"outs": p_outs, "final": p_final}))
    cuts = set()
    simulate(c, lambda side, i: i, cuts=cuts)
    k, why = first_diff(project(o.get("outs", []), cuts), o.get("final", ""), p_outs, p_final)
    print("property oracle:", why)
    return 1 if k else 0
