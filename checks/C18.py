"""C18 load balancers: proof (Props/C18.v) + correspondence of Model/Balance.v with the seven real
balancers, each installed with Client.Use in front of a scripted, recording IO handler."""
import glob
import itertools
import json
import math
import os
import re
from functools import reduce

import hv

WEIGHTED = ("wrr", "nginx", "wrand", "wla")
ALL = ("rr", "rand", "la") + WEIGHTED
FAILURE_AWARE = ("nginx", "wrand", "wla")


# --------------------------------------------------------------------------- case generation
def seq_script(outs, start=0):
    """each call finished (with the given outcome) before the next starts"""
    return " ".join("S F%d%s" % (start + k, o) for k, o in enumerate(outs))


def hold_scripts(maxlen, max_inflight):
    """all scripts of S / F<k> tokens up to maxlen with at most max_inflight calls in flight;
    the outcome of the j-th finish is taken from a fixed rotation so that the branching stays small"""
    rot = "EPOOEP"
    out = []

    def rec(toks, inflight, started, fins):
        if toks:
            out.append(" ".join(toks))
        if len(toks) == maxlen:
            return
        if len(inflight) < max_inflight:
            rec(toks + ["S"], inflight + [started], started + 1, fins)
        for k in inflight:
            rest = [x for x in inflight if x != k]
            rec(toks + ["F%d%s" % (k, rot[fins % len(rot)])], rest, started, fins + 1)

    rec([], [], 0, 0)
    return out


def random_script(rng, length, max_inflight, pw=(2, 1, 1)):
    toks, inflight, started = [], [], 0
    for _ in range(length):
        if inflight and (len(inflight) >= max_inflight or rng.random() < 0.5):
            k = inflight.pop(rng.randrange(len(inflight)))
            toks.append("F%d%s" % (k, rng.choices("OEP", weights=pw)[0]))
        else:
            toks.append("S")
            inflight.append(started)
            started += 1
    return " ".join(toks)


def gcd_all(ws):
    return reduce(math.gcd, ws)


def gen_cases(ctx):
    quick = ctx.tier == "quick"
    rng = ctx.rng
    cases = []

    def add(kind, **kw):
        kw["id"] = len(cases) + 1
        kw["kind"] = kind
        if kw.get("mode") != "conc":
            kw["seed"] = kw["id"]  # math/rand is re-seeded with seed_for(case, k) before call k
        cases.append(kw)

    # 0. the corpus: failing inputs of defects that were repaired in /repo; they must keep passing
    for path in sorted(glob.glob(os.path.join(hv.V, "corpus", "C18-*.json"))):
        for cc in json.load(open(path)).get("cases", []):
            add("corpus", **cc)
    # A. every weight vector with n <= 4, w <= 6: two full cycles without failures (wrr, nginx),
    #    a short mixed history for the random policies
    for n in range(1, 5):
        for ws in itertools.product(range(1, 7), repeat=n):
            ws = list(ws)
            total = sum(ws)
            add("cycle", lb="wrr", weights=ws, script=seq_script("O" * (2 * total // gcd_all(ws) + 1)))
            add("cycle", lb="nginx", weights=ws, script=seq_script("O" * (2 * total + 1)))
            outs = "".join(rng.choices("OEP", weights=(2, 1, 1), k=6))
            add("mixed", lb="wrand", weights=ws, script=seq_script(outs))
            add("mixed", lb="wla", weights=ws, script=random_script(rng, 8, 3))
    # B. weights the constructors must reject (zero, negative), and the empty configuration
    for n in range(1, 4):
        for ws in itertools.product(range(0, 3), repeat=n):
            if 0 in ws:
                for lb in WEIGHTED:
                    add("badweight", lb=lb, weights=list(ws), script="S F0O")
    for lb in WEIGHTED:
        add("badweight", lb=lb, weights=[3, -1], script="S F0O")
        add("empty", lb=lb, weights=[], script="S")
    # C. the unweighted balancers, n = 0..6
    for n in range(0, 7):
        add("empty" if n == 0 else "unweighted", lb="rr", n=n,
            script=seq_script("".join(rng.choices("OEP", k=2 * n + 3))) if n else "S F0O S")
        add("empty" if n == 0 else "unweighted", lb="rand", n=n, script=seq_script("OEP" * 8))
        add("empty" if n == 0 else "unweighted", lb="la", n=n,
            script=seq_script("".join(rng.choices("OEP", k=3 * n + 2))))
    # D. every success/error/panic history of length 8 (all shorter ones are prefixes) for the
    #    failure-aware policies on a few weight vectors
    plan = [([2, 1], 8), ([1, 2, 1], 6)] if quick else [([1, 1], 8), ([2, 1], 8), ([1, 2, 1], 8), ([3, 1, 2], 8)]
    for ws, hl in plan:
        for outs in itertools.product("OEP", repeat=hl):
            for lb in FAILURE_AWARE:
                add("history", lb=lb, weights=ws, script=seq_script(outs))
    # E. calls held in flight: all small start/finish interleavings
    hs = hold_scripts(6 if quick else 7, 3)
    for s in hs:
        add("hold", lb="la", n=2, script=s)
        add("hold", lb="la", n=3, script=s)
        add("hold", lb="wla", weights=[1, 2], script=s)
        add("hold", lb="wla", weights=[2, 1, 1], script=s)
    for s in hs[:: (3 if quick else 1)]:
        add("hold", lb="nginx", weights=[2, 1], script=s)
        add("hold", lb="wrand", weights=[1, 2], script=s)
        add("hold", lb="rr", n=3, script=s)
        add("hold", lb="wrr", weights=[2, 4], script=s)
    # F. seeded random longer histories
    for _ in range(250 if quick else 3000):
        lb = rng.choice(ALL)
        n = rng.randint(1, 8)
        length = rng.randint(20, 200)
        kw = {}
        if lb in WEIGHTED:
            g = rng.choice([1, 1, 2, 3, 5])
            kw["weights"] = [g * rng.randint(1, 7) for _ in range(n)]
        else:
            kw["n"] = n
        pw = rng.choice([(1, 0, 0), (2, 1, 1), (1, 2, 2), (1, 1, 0)])
        add("random", lb=lb, script=random_script(rng, length, rng.choice([1, 1, 3, 6]), pw), **kw)
    # H. the client's URL list changes between calls: shrinks, grows, is reordered
    def cfg(ids):
        return "C" + ",".join(str(i) for i in ids)

    def seq_from(k0, outs):
        return " ".join("S F%d%s" % (k0 + k, o) for k, o in enumerate(outs))

    for n1 in range(1, 6):
        for k1 in range(0, n1 + 2):
            for n2 in range(1, 6):
                if n2 == n1:
                    continue
                k2 = 2 * n2 + 2
                for lb in ("rr", "rand", "la"):
                    add("reconfig", lb=lb, n=n1, script=" ".join(
                        x for x in [seq_from(0, "O" * k1), cfg(range(n2)), seq_from(k1, ("OEP" * k2)[:k2])] if x))
    for lb in WEIGHTED:
        add("reconfig", lb=lb, weights=[2, 1, 3], script=" ".join(
            [seq_from(0, "OOE"), cfg([0]), seq_from(3, "OPO"), cfg([2, 1, 0, 3, 4]), seq_from(6, "OOOOOO")]))
    # ... also while calls are in flight (least-active keeps counting them), and reorderings
    for _ in range(120 if quick else 1200):
        lb = rng.choice(["la", "la", "rr", "rand"])
        n = rng.randint(1, 5)
        toks, inflight, started = [], [], 0
        for _ in range(rng.randint(8, 40)):
            x = rng.random()
            if x < 0.15:
                m = rng.randint(1, 6)
                ids = list(range(m))
                if rng.random() < 0.3:
                    rng.shuffle(ids)
                toks.append(cfg(ids))
            elif inflight and (len(inflight) >= 4 or x < 0.55):
                k = inflight.pop(rng.randrange(len(inflight)))
                toks.append("F%d%s" % (k, rng.choice("OEP")))
            else:
                toks.append("S")
                inflight.append(started)
                started += 1
        add("reconfig", lb=lb, n=n, script=" ".join(toks))
    # I. a burst of concurrent callers (direct Handler calls, all at once), then a sequential probe
    #    that must be fair again and must match the model started from the state the balancer rests in
    for lb in ALL:
        for rep in range(3 if quick else 10):
            if lb in WEIGHTED:
                kw = {"weights": [rng.randint(1, 4) for _ in range(rng.randint(2, 3))]}
                nn, period = len(kw["weights"]), sum(kw["weights"])
            else:
                nn = rng.choice([2, 3])
                kw = {"n": nn}
                period = nn
            heavy = lb == "wla"   # prints every URL
            add("burst", lb=lb, mode="burst", g=16 if quick else 32, m=(1500 if heavy else 12000),
                outs="O" if rep == 0 else rng.choice(["O", "OEP", "OOOE"]),
                script=seq_from(0, "O" * (2 * period + 2)), **kw)
    for rep in range(6 if quick else 20):   # the round-robin cursor under the heaviest contention
        add("burst", lb="rr", mode="burst", n=rng.choice([2, 3]), g=32, m=20000, outs="O",
            script=seq_from(0, "O" * 8))
    # G. concurrent callers (validity / no crash / counters back to zero)
    for lb in ALL:
        for rep in range(2 if quick else 6):
            kw = {"weights": [rng.randint(1, 5) for _ in range(rng.randint(1, 5))]} if lb in WEIGHTED \
                else {"n": rng.randint(1, 5)}
            add("conc", lb=lb, mode="conc", g=rng.choice([4, 16, 32]), m=150 if quick else 600,
                outs=rng.choice(["O", "OEP", "OOEP", "EP", "OOOOOOE"]), **kw)
    return cases


# --------------------------------------------------------------------------- model side
def model_tokens(case, obs):
    """(header tokens, event tokens): the model is fed the weights in the balancer's own order, the
    state the balancer rested in after a burst (if any), the configuration changes and the
    implementation's choices"""
    lb = case["lb"]
    if lb in WEIGHTED:
        ws = obs.get("order") if obs.get("ctor") == "ok" and obs.get("order") is not None else case["weights"]
        head = [lb, str(len(ws)), str(len(ws))] + [str(w) for w in ws]
    else:
        head = [lb, str(case["n"]), "0"]
    if case.get("mode") == "burst" and obs.get("rest_st") is not None:
        head.append("@" + ",".join(str(x) for x in obs["rest_st"]))
    evs = []
    toks = case.get("script", "").split()
    events = obs.get("events") or []
    for j, tok in enumerate(toks):
        if j >= len(events):
            break
        if tok == "S":
            u = events[j]["u"]
            evs.append("S%d" % (u if u >= 0 else 0))
            if "early" in events[j]:
                break
        elif tok[0] == "C":
            evs.append("C%d" % events[j]["k"])
        else:
            evs.append(tok)
    return head, evs


def model_line(case, obs):
    head, evs = model_tokens(case, obs)
    return " ".join(head + evs)


def parse_model(out):
    res = []
    for t in out.split():
        if t.startswith("S:"):
            _, pick, adm, st, draw = t.split(":")
            kind, arg = draw.split("/")
            res.append({"ev": "S", "pick": int(pick), "adm": [int(x) for x in adm.split(",") if x != ""],
                        "st": [int(x) for x in st.split(",") if x != ""], "draw": (int(kind), int(arg))})
        elif t.startswith("F:"):
            res.append({"ev": "F", "st": [int(x) for x in t[2:].split(",") if x != ""]})
        else:
            res.append({"ev": t})
    return res


def compare(case, obs, mout):
    """None when model and implementation agree on every projected observable, else a description"""
    if obs.get("fatal"):
        return "harness: " + obs["fatal"]
    if obs["ctor"] != "ok":
        return None if mout.startswith("CTOR-PANIC") else "implementation constructor panicked (%s), model: %s" % (
            obs.get("ctor_msg"), mout[:60])
    if mout.startswith("CTOR-"):
        return "model constructor %s, implementation constructed the balancer" % mout
    if mout.startswith("MODEL-ERROR"):
        return "model driver error " + mout[:120]
    mev = parse_model(mout)
    events = obs.get("events") or []
    for j, e in enumerate(events):
        if j >= len(mev):
            return "event %d: model stopped early (%s)" % (j, mout[-40:])
        m = mev[j]
        if "early" in e:
            if m["ev"] != "PANIC":
                return "event %d: call returned without reaching the downstream handler (%s), model says %s" % (
                    j, e.get("msg"), m["ev"])
            return None
        if m["ev"] in ("PANIC", "FUEL", "BADSCRIPT"):
            return "event %d: model says %s, implementation went on" % (j, m["ev"])
        if e["ev"] == "S":
            if e["u"] not in m["adm"]:
                return "event %d: implementation picked server %d, model admits %s" % (j, e["u"], m["adm"])
            if m["pick"] != e["u"]:
                return "event %d: model driven with the observed choice %d returned %d" % (j, e["u"], m["pick"])
        if m["st"] != e["st"]:
            return "event %d: balancer fields %s, model state %s" % (j, e["st"], m["st"])
    if len(mev) != len(events):
        return "model produced %d events, implementation %d" % (len(mev), len(events))
    return None


def seed_for(case, k):
    return case["seed"] * 1000003 + k + 1


def exact_pass(ctx, agreeing):
    """Second comparison for the balancers that ask math/rand.  The harness re-seeds math/rand before
    every call, so the value the code draws is known: it is the first value rand.Intn(a) / rand.Int63n(a)
    returns after rand.Seed(seed), where (kind, a) is the draw the model says the code makes in that state.
    With those values the model must pick exactly the server the implementation picked."""
    reqs, where = [], []
    for ci, (c, o, mo) in enumerate(agreeing):
        if c["lb"] in ("rr", "wrr") or o["ctor"] != "ok":
            continue
        for j, m in enumerate(parse_model(mo)):
            if m["ev"] == "S" and m["draw"][0] != 0:
                reqs.append([seed_for(c, o["events"][j]["k"]), m["draw"][0], m["draw"][1]])
                where.append((ci, j))
    if not reqs:
        return []
    chunk = 50000
    rcases = [{"id": i + 1, "mode": "rand", "reqs": reqs[a:a + chunk]} for i, a in enumerate(range(0, len(reqs), chunk))]
    rc, robs, err = hv.run_harness("c18", rcases)
    if rc != 0 or len(robs) != len(rcases) or not all(r.get("seed_ok") for r in robs):
        ctx.note("exact_rand_pass", "skipped: rand.Seed does not control the global generator in this toolchain")
        return []
    vals = [v for r in sorted(robs, key=lambda r: r["id"]) for v in r["vals"]]
    value = {w: v for w, v in zip(where, vals)}
    lines, idx = [], []
    for ci, (c, o, mo) in enumerate(agreeing):
        if c["lb"] in ("rr", "wrr") or o["ctor"] != "ok":
            continue
        head, toks = model_tokens(c, o)
        evs = []
        for j, tok in enumerate(toks):
            evs.append("R%d" % value.get((ci, j), 0) if tok.startswith("S") else tok)
        if any("early" in e for e in o["events"]):
            continue
        lines.append(" ".join(["x:" + head[0]] + head[1:] + evs))
        idx.append(ci)
    outs = hv.run_model("c18", lines)
    bad = []
    for ci, out in zip(idx, outs):
        c, o, mo = agreeing[ci]
        picks = [e["u"] for e in o["events"] if e["ev"] == "S"]
        want = "P:" + ",".join(str(x) for x in picks)
        if out != want:
            bad.append((c, o, out, "with the values math/rand returns for its seeds the model picks %s, the implementation picked %s"
                        % (out, want)))
    ctx.note("exact_rand_pass", {"cases": len(lines), "rand_draws_replayed": len(reqs), "mismatches": len(bad)})
    return bad


# --------------------------------------------------------------------------- the property itself
def servers_of(case, obs):
    if case["lb"] in WEIGHTED:
        return list(obs.get("order") or [])
    return [1] * case["n"]


def split_state(lb, st, n):
    """(actives, eff) as far as the balancer has them"""
    if lb == "la":
        return st, None
    if lb == "nginx":
        return None, st[:n]
    if lb == "wrand":
        return None, st[:n]
    if lb == "wla":
        return st[:n], st[n:2 * n]
    return None, None


def windows_ok(picks, period, want):
    for a in range(0, len(picks) - period + 1):
        w = picks[a:a + period]
        for i, c in enumerate(want):
            if w.count(i) != c:
                return "calls %d..%d: server %d chosen %d times, its share of a cycle of %d is %d" % (
                    a, a + period - 1, i, w.count(i), period, c)
    return None


def burst_oracle(case, obs, n):
    lb = case["lb"]
    if obs.get("invalid"):
        return "concurrent callers: %d calls were sent to a URL that is not configured" % obs["invalid"]
    if obs.get("crashes"):
        return "concurrent callers: unexpected failure %s" % obs["crashes"][0]
    if sum(obs.get("per_server") or []) != obs.get("calls"):
        return "concurrent callers: %d calls made, %d reached a configured server" % (
            obs.get("calls"), sum(obs.get("per_server") or []))
    st = obs.get("final_st") if case.get("mode") == "conc" else obs.get("rest_st")
    act, eff = split_state(lb, st or [], n)
    if act is not None and any(a != 0 for a in act):
        return "concurrent callers: in-flight counters %s after all calls finished" % act
    if eff is not None and any(not (0 <= e <= w) for e, w in zip(eff, obs["order"])):
        return "concurrent callers: effective weights %s outside [0, weight] %s" % (eff, obs["order"])
    return None


def property_oracle(case, obs):
    """C18 as written, evaluated on what the implementation did (no model involved).  Servers are
    identified with their position in the list in force when the call was made."""
    lb = case["lb"]
    if obs.get("fatal"):
        return "hang: " + obs["fatal"]
    mode = case.get("mode")
    if mode in ("conc", "burst"):
        n0 = len(obs.get("order") or []) if lb in WEIGHTED else case["n"]
        why = burst_oracle(case, obs, n0)
        if why or mode == "conc":
            return why
    if lb in WEIGHTED:
        bad = [w for w in case["weights"] if w <= 0]
        if obs["ctor"] != "ok":
            return None if bad else "constructor refused the valid weights %s: %s" % (case["weights"], obs.get("ctor_msg"))
    ws = servers_of(case, obs)
    n = len(ws)
    events = obs.get("events") or []
    toks = case.get("script", "").split()
    if n == 0:
        return None  # no server configured: nothing can be selected
    if lb in WEIGHTED and any(w <= 0 for w in ws):
        return None  # not a configuration the property speaks about
    segments = [[]]          # picks between configuration changes
    server_of_call = {}
    inflight = [0] * n       # per slot; never shrinks
    failed_before = None     # number of picks made before the first failing call was settled
    prev_eff = None
    if lb in FAILURE_AWARE:
        prev_eff = list(ws)
        if mode == "burst":
            _, e0 = split_state(lb, obs.get("rest_st") or [], n)
            prev_eff = list(e0) if e0 is not None else None
            if any(c != "O" for c in case.get("outs", "O")):
                failed_before = 0
    for j, e in enumerate(events):
        if e["ev"] == "C":
            if lb not in WEIGHTED:
                n = e["k"]
                ws = [1] * n
                if n == 0:
                    return None
                inflight += [0] * (n - len(inflight))
                segments.append([])
            continue
        act, eff = split_state(lb, e["st"], len(ws) if lb in WEIGHTED else len(e["st"]))
        if e["ev"] == "S":
            if "early" in e:
                return "call %d selected no server: %s" % (e["k"], e.get("msg"))
            u = e["u"]
            if not (0 <= u < n):
                return "call %d was sent to something that is not one of the %d configured servers (index %d)" % (e["k"], n, u)
            if lb in ("la", "wla") and inflight[u] != min(inflight[:n]):
                return "call %d went to server %d with %d calls in flight while another server had %d" % (
                    e["k"], u, inflight[u], min(inflight[:n]))
            if lb in ("wrand", "wla") and prev_eff is not None:
                cands = [i for i in range(n) if inflight[i] == min(inflight)] if lb == "wla" else list(range(n))
                if sum(prev_eff[i] for i in cands) > 0 and prev_eff[u] == 0 and len(cands) > 1:
                    return "call %d went to server %d whose effective weight is 0 while others have a positive one %s" % (
                        e["k"], u, prev_eff)
            segments[-1].append(u)
            server_of_call[e["k"]] = u
            inflight[u] += 1
        else:
            if e.get("r") == "-":
                continue
            u = server_of_call.get(e["k"])
            if u is None:
                return "finish of unknown call %d" % e["k"]
            inflight[u] -= 1
            o = toks[j][-1]
            if e.get("r") != o:
                return "call %d: downstream outcome %s reported as %s (%s)" % (e["k"], o, e.get("r"), e.get("msg"))
            if o != "O" and failed_before is None:
                failed_before = sum(len(x) for x in segments)
            if eff is not None and prev_eff is not None and len(eff) == n:
                for i in range(n):
                    d = eff[i] - prev_eff[i]
                    if i != u and d != 0:
                        return "call %d on server %d changed the effective weight of server %d" % (e["k"], u, i)
                if o == "O":
                    want = min(prev_eff[u] + 1, ws[u])
                else:
                    want = max(prev_eff[u] - 1, 0)
                if eff[u] != want:
                    return "call %d (%s) on server %d: effective weight %d -> %d, expected %d (weight %d)" % (
                        e["k"], "success" if o == "O" else "failure", u, prev_eff[u], eff[u], want, ws[u])
        if act is not None:
            m = max(len(act), len(inflight))
            if list(act) + [0] * (m - len(act)) != inflight + [0] * (m - len(inflight)):
                return "after event %d the in-flight counters are %s but %s calls are in flight" % (j, list(act), inflight)
        if eff is not None:
            if len(eff) != n or any(not (0 <= x <= w) for x, w in zip(eff, ws)):
                return "after event %d effective weights %s are not within [0, weight] %s" % (j, eff, ws)
            prev_eff = list(eff)
        elif lb in FAILURE_AWARE:
            prev_eff = None
    if lb in FAILURE_AWARE and any(e["ev"] != "C" for e in events) and prev_eff is None:
        return "effective weights not observable"
    # full cycles; after a change of the list fairness must have resumed after one call
    picks = [u for seg in segments for u in seg]
    if lb == "rr":
        sizes = [case["n"]] + [e["k"] for e in events if e["ev"] == "C"]
        for si, seg in enumerate(segments):
            nn = sizes[si]
            part = seg if si == 0 else seg[1:]
            why = windows_ok(part, nn, [1] * nn)
            if why:
                return "round robin%s: %s" % (" (after the list changed; first call skipped)" if si > 0 else "", why)
    if lb == "wrr":
        g = gcd_all(ws)
        why = windows_ok(picks, sum(ws) // g, [w // g for w in ws])
        if why:
            return "weighted round robin: " + why
    if lb == "nginx":
        clean = picks if failed_before is None else picks[:failed_before]
        why = windows_ok(clean, sum(ws), ws)
        if why:
            return "smooth weighted round robin: " + why
    return None


def key_of(lb, why):
    return "c18:%s:%s" % (lb, re.sub(r"[0-9\[\], -]+", " ", why)[:70].strip())


# --------------------------------------------------------------------------- the check
def run_harness_parallel(cases, parts=4):
    """the cases are independent (a fresh client and balancer each): run them in a few harness processes"""
    from concurrent.futures import ThreadPoolExecutor
    chunks = [cases[i::parts] for i in range(parts)]
    chunks = [c for c in chunks if c]
    with ThreadPoolExecutor(max_workers=len(chunks) or 1) as ex:
        res = list(ex.map(lambda ch: hv.run_harness("c18", ch), chunks))
    rc = max([r[0] for r in res] or [0])
    obs = [o for r in res for o in r[1]]
    err = "".join(r[2] for r in res)
    return rc, obs, err


def run(ctx):
    ctx.level = "proof"
    ctx.assumptions += [
        "Go ints are modelled as unbounded Z (int64 overflow of indexes, weights and counters is out of reach); "
        "the only int64 constant of the code, math.MinInt64 in the Nginx balancer, is modelled and gives the "
        "premise sum(w) <= 2^63 of C18_swrr_cycle",
        "math/rand is an oracle: the value drawn is an input of the model constrained to the range the code asks "
        "for; the run compares the implementation's choice with the model's admissible set (proved sound and "
        "complete) and feeds the choice back",
        "histories are interleavings at the granularity of the plugins' critical sections (mutex/rwlock sections, "
        "atomic operations); RoundRobin's AddInt64/StoreInt64 are two steps; LeastActive's select and increment "
        "are taken as one step (exact when Handler prefixes do not overlap; the overlapping case is "
        "C18_least_active_min_overlap_refuted and is not reproducible without a yield hook)",
        "the set of servers is fixed for the lifetime of a balancer",
    ]
    import time
    t0 = time.time()
    ctx.prove()
    t1 = time.time()
    hv.build_harness("c18")
    hv.build_modelrun("c18")
    t2 = time.time()
    cases = gen_cases(ctx)
    rc, obs, err = run_harness_parallel([{k: v for k, v in c.items() if k != "kind"} for c in cases])
    t3 = time.time()
    ctx.note("timing_s", {"prove": round(t1 - t0, 1), "build": round(t2 - t1, 1), "harness": round(t3 - t2, 1)})
    byid = {o["id"]: o for o in obs}
    if rc != 0 or len(byid) != len(cases):
        hung = [o for o in obs if o.get("fatal")]
        if not hung:
            first = next((c for c in cases if c["id"] not in byid), None)
            ctx.report("harness-crash", "harness process died (rc=%d) while running %s: %s" % (rc, first, err[-400:]),
                       {"case": first, "stderr": err[-2000:], "failing_input": True})
        # a hung case stops its harness process (reported below by the property oracle)
        ctx.note("cases_not_run_after_a_hang", len(cases) - len(byid))
        cases = [c for c in cases if c["id"] in byid]
    script_cases = [c for c in cases if c.get("mode") != "conc"]
    mouts = hv.run_model("c18", [model_line(c, byid[c["id"]]) for c in script_cases])
    ctx.cov["timing_s"]["model"] = round(time.time() - t3, 1)
    disagreements = []
    agreeing = []
    agree = 0
    for c, mo in zip(script_cases, mouts):
        o = byid[c["id"]]
        lb = c["lb"]
        order = (o.get("order") or []) if lb in WEIGHTED else c["n"]
        canon = "%s|%s|%s" % (lb, order if o["ctor"] == "ok" else c.get("weights"), c["script"])
        nserv = len(order) if isinstance(order, list) else order
        npicks = sum(1 for e in (o.get("events") or []) if e["ev"] == "S" and "early" not in e)
        ctx.count_case(canon, nontrivial=(o["ctor"] == "ok" and nserv >= 2 and npicks >= nserv))
        ctx.bump("by_balancer", lb)
        ctx.bump("by_kind", c["kind"])
        ctx.bump("calls_observed", None, npicks)
        if lb in WEIGHTED and o["ctor"] == "ok" and o.get("order") != c["weights"]:
            ctx.bump("map_order_differs_from_requested")
        d = compare(c, o, mo)
        if d is None:
            agree += 1
            agreeing.append((c, o, mo))
            if c["kind"] in ("history", "hold", "cycle") and len(ctx.cov["samples"]) < 6 and c["id"] % 977 == 3:
                ctx.sample({"case": {k: c[k] for k in ("lb", "script") if k in c}, "weights_in_balancer_order": order,
                            "picks": [e["u"] for e in o["events"] if e["ev"] == "S"]})
        else:
            disagreements.append((c, o, mo, d))
    exact_bad = exact_pass(ctx, agreeing)
    disagreements += exact_bad
    agree -= len(exact_bad)
    ctx.note("traces_validated_against_impl", agree)
    ctx.note("rule", "script cases: all weight vectors n<=4, w<=6 over two full cycles (wrr, nginx) and mixed histories "
             "(wrand, wla); rejected weights (0, negative) and empty configurations; rr/rand/la for n=0..6; all O/E/P "
             "histories of length 8 (quick: one weight vector, length 6 on a second; thorough: four vectors) for "
             "nginx/wrand/wla; all start/finish interleavings up to "
             "length %d with <=3 calls in flight; seeded random histories up to 200 events; distinct by (balancer, "
             "weights in the balancer's own order, script); non-trivial = built, >=2 servers and at least as many "
             "calls as servers" % (6 if ctx.tier == "quick" else 7))
    ctx.note("exhaustive", True)
    ctx.note("model_vs_impl_disagreements", len(disagreements))
    # decide: property oracle on the disagreeing cases first
    for c, o, mo, d in disagreements:
        why = property_oracle(c, o)
        if why is not None:
            ctx.report(key_of(c["lb"], why), "%s: %s" % (c["lb"], why),
                       {"case": c, "observed": o, "model": mo, "disagreement": d, "failing_input": True})
            if len(ctx.violations) >= 8:
                break
    if disagreements and not ctx.violations and not ctx.known_hits:
        c, o, mo, d = disagreements[0]
        ctx.report("correspondence:" + c["lb"],
                   "Model/Balance.v no longer matches the %s balancer (theorems C18_* not transferred): %s" % (c["lb"], d),
                   {"case": c, "observed": o, "model": mo, "failing_input": False,
                    "correspondence": "Balance.run_obs vs loadbalance.*.Handler", "disagreeing_cases": len(disagreements)})
    # ... and on every case (catches a model that is wrong the same way the code is)
    for c in cases:
        o = byid[c["id"]]
        why = property_oracle(c, o)
        if c.get("mode") == "burst":
            ctx.bump("concurrent_calls", None, o.get("calls", 0))
        if c.get("mode") == "conc":
            ctx.count_case("conc|%s|%s|%s|%s" % (c["lb"], c.get("weights", c.get("n")), c["g"], c["outs"]), nontrivial=True)
            ctx.bump("concurrent_calls", None, o.get("calls", 0))
        if why is not None:
            ctx.report(key_of(c["lb"], why), "%s: %s" % (c["lb"], why),
                       {"case": c, "observed": o, "failing_input": True})
            if len(ctx.violations) >= 8:
                break
    # the concurrent cases again under the race detector (all of them in the thorough tier, a few per balancer in the
    # quick tier): an unsynchronised balancer shows as a wrong pick only once in millions of calls, as a reported data
    # race at once
    if True:
        try:
            hv.build_harness("c18", race=True)
            cc = [{k: v for k, v in c.items() if k != "kind"} for c in cases if c.get("mode") == "conc"]
            if ctx.tier != "thorough":
                per, few = {}, []
                for c in cc:
                    if per.get(c["lb"], 0) < 3:
                        per[c["lb"]] = per.get(c["lb"], 0) + 1
                        few.append(c)
                cc = few
            rc2, obs2, err2 = hv.run_harness("c18", cc, race=True)
            ctx.note("race_detector", {"cases": len(cc), "exit": rc2, "reports": err2.count("WARNING: DATA RACE")})
            for c, o in zip(cc, obs2):
                why = property_oracle(c, o)
                if why is not None:
                    ctx.report(key_of(c["lb"], why), "%s (race build): %s" % (c["lb"], why),
                               {"case": c, "observed": o, "failing_input": True})
            if "WARNING: DATA RACE" in err2:
                m = re.search(r"loadbalance/[a-z_]+\.go:\d+", err2)
                ctx.report("c18:data-race:" + (m.group(0) if m else "?"),
                           "data race reported inside a balancer under concurrent callers: " + (m.group(0) if m else err2[:300]),
                           {"stderr": err2[:4000], "failing_input": True})
        except hv.EnvError as e:
            ctx.note("race_detector", "unavailable: " + str(e)[:200])


def replay(ctx, path):
    r = json.load(open(path))
    case = r.get("case")
    if not case:
        print("replay has no case")
        return 2
    hv.build_harness("c18")
    hv.build_modelrun("c18")
    rc, obs, err = hv.run_harness("c18", [{k: v for k, v in case.items() if k != "kind"}])
    print(json.dumps(obs))
    if not obs:
        print("harness produced nothing:", err[-500:])
        return 1
    why = property_oracle(case, obs[0])
    print("property oracle:", why)
    if case.get("mode") != "conc":
        mo = hv.run_model("c18", [model_line(case, obs[0])])[0]
        print("model:", mo)
        print("correspondence:", compare(case, obs[0], mo))
    return 1 if why else 0
