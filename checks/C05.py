"""C05 streaming decode == in-memory decode for every fragmentation and buffer size.

Proof: Props/C05.v over Model/DecStream.v.  Correspondence: the exported buffer primitives of the
real Decoder driven over a scripted io.Reader (every split, every fixed chunk size, random chunk
sequences with zero-length reads, tiny and large buffers) against the extracted model, call by
call.  Property oracle (independent of the model): the observation of a streaming run equals the
observation of the contiguous run on the same bytes -- on primitive sequences and on full
Decode(&v) of encoder-produced streams and all their truncations."""
import json
import hv

import glob
import os

TINY = [1, 2, 3, 4, 5, 7, 8, 16, 64]
BIG = [0, 256, 257, 4096]          # through NewDecoderFromReader (anything below 256 becomes 256)


def real_cap(ctor, cap):
    if ctor == "reset":
        return cap
    return cap if cap >= 256 else 256


def pieces(total, lens, cap):
    """lengths of the successive non-empty Read results for a stream of `total` bytes"""
    out, pos = [], 0
    ls = list(lens)
    if sum(ls) < total:
        ls.append(total - sum(ls))
    for n in ls:
        while n > cap:
            out.append(cap)
            n -= cap
        if n > 0:
            out.append(n)
    return out


def bounds(total, lens, cap):
    s, acc = set(), 0
    for n in pieces(total, lens, cap):
        acc += n
        s.add(acc)
    s.discard(total)
    return s


# ----------------------------------------------------------------- chunk patterns

def chunkings(rng, n, full, n_split, n_fixed, n_random):
    out = []
    if full:
        out += [("split", [k]) for k in range(0, n + 1)]
        out += [("fixed", [k] * (n // k)) for k in range(1, n + 1)]
    else:
        ks = sorted(set([0, 1, 2, n - 1, n] + [rng.randint(0, n) for _ in range(n_split)]))
        out += [("split", [k]) for k in ks if 0 <= k <= n]
        fs = sorted(set([1, 2, 3, 5] + [rng.randint(1, max(1, n)) for _ in range(n_fixed)]))
        out += [("fixed", [k] * (n // k)) for k in fs if k >= 1]
    for _ in range(n_random):
        lens, left = [], n
        style = rng.choice(["small", "mixed", "zeros"])
        while left > 0:
            if style == "small":
                k = rng.choice([1, 1, 1, 2, 2, 3])
            elif style == "zeros":
                k = rng.choice([0, 0, 1, 1, 2, 3, 4])
            else:
                k = rng.choice([0, 1, 1, 2, 3, 4, 7, 16, 100, 300])
            k = min(k, left)
            lens.append(k)
            left -= k
        if rng.random() < 0.3:
            lens.append(0)
        out.append(("random", lens))
    return out


# ----------------------------------------------------------------- primitive programs

CHARS = ["a", "z", "0", ";", '"', "ß", "é", "€", "你", "好", "😀", "𝄞", "߿", "ࠀ", "￿"]


def gen_piece(rng):
    k = rng.choice(["nb", "sk", "nx", "nx", "un", "un", "ri", "ri", "ru", "rt", "rd", "rb", "rb",
                    "rs", "rs", "rs", "st", "st"])
    rb = lambda n: bytes(rng.randrange(256) for _ in range(n))
    if k in ("nb", "sk"):
        return k, rb(1)
    if k == "nx":
        n = rng.choice([0, 1, 2, 3, 5, 9, 17])
        return "nx:%d" % n, rb(n)
    if k == "un":
        d = rng.choice([0x3b, 0x22, 0x7b, 0x00])
        body = bytes(b for b in rb(rng.choice([0, 1, 3, 6, 12])) if b != d)
        return "un:%02x" % d, body + bytes([d])
    if k in ("ri", "ru"):
        nd = rng.choice([1, 1, 2, 3, 5, 10, 19, 20, 25])
        s = "".join(rng.choice("0123456789") for _ in range(nd))
        if rng.random() < 0.3:
            s = "-" + s
        return k, s.encode() + rng.choice([b";", b'"', b"{", b"x"])
    if k in ("rt", "rd"):
        t = "%02d%02d%02d" % (rng.randrange(24), rng.randrange(60), rng.randrange(60))
        frac = rng.choice(["", ".123", ".123456", ".123456789"])
        end = rng.choice(["Z", ";"])
        if k == "rt":
            return k, (t + frac + end).encode()
        d = "%04d%02d%02d" % (rng.choice([1, 1970, 2024, 9999]), rng.randint(1, 12), rng.randint(1, 28))
        if rng.random() < 0.6:
            return k, (d + "T" + t + frac + end).encode()
        return k, (d + end).encode()
    if k == "rb":
        n = rng.choice([0, 1, 2, 3, 7, 12])
        return k, str(n).encode() + b'"' + rb(n) + b'"'
    if k == "rs":
        cs = [rng.choice(CHARS) for _ in range(rng.choice([0, 1, 1, 2, 3, 4, 6, 9]))]
        s = "".join(cs)
        return k, str(len(s.encode("utf-16-le")) // 2).encode() + b'"' + s.encode() + b'"'
    c = rng.choice([c for c in CHARS if len(c.encode("utf-16-le")) == 2])
    return "st:1", c.encode()


GO_VARIANT = {"nx": ["nx", "nxu"], "un": ["un", "unu"], "rs": ["rs", "rs", "rS", "rSS"], "st": ["st", "st", "sts"],
              "ri": ["ri", "rI"]}
TO_MODEL = {"nxu": "nx", "unu": "un", "rS": "rs", "rSS": "rs", "sts": "st", "rI": "ri"}
STRINGY = ("rS", "rSS", "sts")


def go_variant(rng, cmd):
    head, _, arg = cmd.partition(":")
    if head in GO_VARIANT:
        head = rng.choice(GO_VARIANT[head])
    return head + (":" + arg if arg else "")


def model_cmd(cmd):
    head, _, arg = cmd.partition(":")
    head = TO_MODEL.get(head, head)
    return head + (":" + arg if arg else "")


def gen_programs(ctx, n_valid, n_garbage):
    rng = ctx.rng
    progs = []
    # the two shapes of the probed behaviour first
    progs.append({"cmds": ["rs", "rm"], "data": '1"€"'.encode(), "cls": "valid"})
    progs.append({"cmds": ["st:1", "rm"], "data": "€".encode(), "cls": "valid"})
    progs.append({"cmds": ["nb", "st:1", "rm"], "data": "u€".encode(), "cls": "valid"})
    progs.append({"cmds": ["st:1", "rm"], "data": b"a", "cls": "valid"})
    for _ in range(n_valid):
        ps = [gen_piece(rng) for _ in range(rng.choice([1, 1, 2, 3, 4, 6]))]
        data = b"".join(p[1] for p in ps)
        cls = "valid"
        if rng.random() < 0.35 and len(data) > 1:
            data = data[:rng.randrange(1, len(data))]
            cls = "truncated"
        cmds = [go_variant(rng, p[0]) for p in ps] + ["rm"]
        progs.append({"cmds": cmds, "data": data, "cls": cls})
    alphabet = list(b'0123456789;;""--aT.Z{}') + [0xc3, 0x9f, 0xe2, 0x82, 0xac, 0xf0, 0x9f, 0x98, 0x80, 0xff, 0x80, 0x00]
    allc = ["nb", "sk", "nx:0", "nx:1", "nx:3", "nx:8", "nx:-1", "un:3b", "un:22", "ri", "ru", "rt", "rd", "rb",
            "rs", "st:1", "rm", "rS", "nxu:2", "unu:3b"]
    for _ in range(n_garbage):
        data = bytes(rng.choice(alphabet) for _ in range(rng.randint(0, 24)))
        cmds = [rng.choice(allc) for _ in range(rng.randint(1, 6))] + ["rm"]
        progs.append({"cmds": cmds, "data": data, "cls": "garbage"})
    return progs


def model_line(mode, cap, data, lens, cmds):
    chunks, pos = [], 0
    for n in lens:
        chunks.append(data[pos:pos + n].hex() or "-")
        pos += n
    if pos < len(data):
        chunks.append(data[pos:].hex())
    return "%s %d %s %s" % (mode, cap, ",".join(chunks) if chunks else ".", " ".join(model_cmd(c) for c in cmds))


def days_from_civil(y, m, d):
    y -= m <= 2
    era = y // 400
    yoe = y - era * 400
    doy = (153 * (m + (-3 if m > 2 else 9)) + 2) // 5 + d - 1
    doe = yoe * 365 + yoe // 4 - yoe // 100 + doy
    return era * 146097 + doe - 719468


def time_token(tok):
    """model 't:<fields>:<tag>' -> what the harness prints for the time.Time Go builds from the fields"""
    _, fields, tag = tok.split(":")
    f = [int(x) for x in fields.split(",")]
    if len(f) == 4:
        y, mo, d = 1970, 1, 1
        h, mi, s, ns = f
    else:
        y, mo, d, h, mi, s, ns = f
    y += (mo - 1) // 12
    mo = (mo - 1) % 12 + 1
    secs = (days_from_civil(y, mo, 1) + d - 1) * 86400 + h * 3600 + mi * 60 + s + ns // 10**9
    return "T:%d,%d,%s" % (secs, ns % 10**9, "Z" if tag == "5a" else "L")


def _tokens(parts, cmds):
    toks, panic = [], None
    for i, t in enumerate(parts):
        if t.startswith("PANIC") or t == "FUEL":
            panic = t
            break
        v, _, e = t.partition("/")      # values never contain "/", error texts may (hprose/io: ...)
        if v.startswith("t:"):
            v = time_token(v)
        if i < len(cmds) and cmds[i].split(":")[0] in STRINGY and v == "x:nil":
            v = "x:"
        toks.append(v + "/" + e)
    return toks, panic


def project_model(out, cmds):
    """model output line -> (tokens comparable with the harness, panic?, guard, spec, spec's own (tokens, panic))"""
    left, _, right = out.partition(" | ")
    parts = left.split(" ")
    guard, spec = parts[-2], parts[-1]
    toks, panic = _tokens(parts[:-2], cmds)
    sp = _tokens(right.split(" "), cmds) if spec == "spec=0" else (toks, panic)
    return toks, panic, guard, spec, sp


def project_impl(o):
    return list(o.get("toks", [])), o.get("panic")


def first_diff(a, b):
    for i in range(max(len(a), len(b))):
        if i >= len(a) or i >= len(b) or a[i] != b[i]:
            return i
    return None


# ----------------------------------------------------------------- corpus

def oracle_diff(case, a, b):
    fields = ["toks", "val", "err", "panic", "rest"]
    if case.get("ctor") == "fmt":
        fields.remove("rest")
    return [f for f in fields
            if (bool(a.get(f)) != bool(b.get(f)) if f == "panic" else a.get(f) != b.get(f))]


def corpus_cases(ctx):
    files = sorted(glob.glob(os.path.join(hv.V, "corpus", "C05-*.json")))
    n = 0
    for path in files:
        r = json.load(open(path))
        for k, pair in enumerate(r["pairs"]):
            case, base = dict(pair["case"], id=1), dict(pair["contiguous_case"], id=2)
            rc, obs, err = hv.run_harness("c05", [case, base])
            n += 1
            if rc != 0 or len(obs) != 2:
                ctx.report("corpus:" + os.path.basename(path), "harness died on corpus case %d of %s: %s" % (k, path, err[-300:]),
                           {"case": case, "contiguous_case": base, "failing_input": True})
                continue
            a, b = obs
            diff = oracle_diff(case, a, b)
            exp = pair.get("expect")
            if diff or (exp is not None and any(a.get(f) != v for f, v in exp.items())):
                ctx.report("corpus:" + os.path.basename(path),
                           "%s (case %d): streaming gives %s, contiguous gives %s, expected %s"
                           % (r.get("what", path), k, json.dumps(a), json.dumps(b), json.dumps(exp)),
                           {"case": case, "contiguous_case": base, "observed": a, "contiguous": b, "failing_input": True})
    ctx.note("corpus_cases_run_first", n)


# ----------------------------------------------------------------- the check

def run(ctx):
    ctx.level = "proof"
    quick = ctx.tier == "quick"
    ctx.assumptions += [
        "the scripted reader follows the io.Reader contract: it returns 0 <= n <= len(p) bytes and, after the last "
        "chunk, (0, io.EOF) for ever (optionally the last chunk together with io.EOF)",
        "uint64 digit accumulation wraps modulo 2^64 (modelled explicitly); int is 64 bits",
        "buffer capacity >= 1 (a zero-length non-nil buffer makes loadMore spin, in the model: OutOfFuel)",
        "full Decode(&v) is covered by the property oracle (streaming == contiguous) only; the Coq model covers the "
        "buffer primitives every decoder routine is written in",
    ]
    ctx.prove()
    hv.build_harness("c05")
    hv.build_modelrun("c05")
    rng = ctx.rng

    # ---------------- 0. corpus first: minimised cases of repaired defects must pass
    corpus_cases(ctx)

    # ---------------- A. primitive sequences: model vs implementation, and the oracle
    progs = gen_programs(ctx, 420 if quick else 3000, 160 if quick else 1200)
    cases, meta = [], {}
    cid = 0
    for pi, p in enumerate(progs):
        data, cmds = p["data"], p["cmds"]
        cid += 1
        base = cid
        cases.append({"id": cid, "kind": "prim", "mode": "B", "chunks": [data.hex()] if data else [], "cmds": cmds})
        meta[cid] = {"p": pi, "mode": "B", "cap": 0, "lens": [], "base": base}
        n = len(data)
        pats = chunkings(rng, n, n <= (26 if quick else 40), 6, 4, 4 if quick else 10)
        for kind, lens in pats:
            if rng.random() < 0.55:
                ctor, cap = "reset", rng.choice(TINY)
            else:
                ctor, cap = "new", rng.choice(BIG)
            caps = [(ctor, cap)]
            if kind == "fixed" and lens and lens[0] <= 2:
                caps = [("reset", c) for c in (1, 2, 3, 4)] + [("new", 256)]
            for ctor, cap in caps:
                cid += 1
                chunks, pos = [], 0
                for k in lens:
                    chunks.append(data[pos:pos + k].hex())
                    pos += k
                if pos < n:
                    chunks.append(data[pos:].hex())
                cases.append({"id": cid, "kind": "prim", "mode": "R", "ctor": ctor, "cap": cap, "chunks": chunks,
                              "eof_last": rng.random() < 0.25, "cmds": cmds})
                meta[cid] = {"p": pi, "mode": "R", "cap": real_cap(ctor, cap), "lens": lens, "base": base, "pat": kind}
    rc, obs, err = hv.run_harness("c05", cases)
    byid = {o["id"]: o for o in obs}
    if rc != 0 or len(byid) != len(cases):
        first = next((c for c in cases if c["id"] not in byid), None)
        ctx.report("harness-crash", "harness process died (rc=%d) on %s: %s" % (rc, json.dumps(first)[:300], err[-400:]),
                   {"case": first, "stderr": err[-2000:], "failing_input": True})
        cases = [c for c in cases if c["id"] in byid]
    lines = []
    for c in cases:
        m = meta[c["id"]]
        p = progs[m["p"]]
        lines.append(model_line(c["mode"], m["cap"], p["data"], m["lens"], p["cmds"]))
    mout = hv.run_model("c05", lines)
    case_by_id = {c["id"]: c for c in cases}
    out_by_id = {c["id"]: o for c, o in zip(cases, mout)}
    mproj = {}
    disagree = set()
    for c, out in zip(cases, mout):
        m = meta[c["id"]]
        p = progs[m["p"]]
        if out.startswith("MODEL-ERROR"):
            raise hv.EnvError("model driver failed on %s: %s" % (lines[0], out))
        mt, mp, guard, spec, (st, sp) = project_model(out, p["cmds"])
        it, ip = project_impl(byid[c["id"]])
        mproj[c["id"]] = (mt, mp, guard, spec)
        agree = (mt == it) and ((mp is None) == (ip is None))
        if not agree:
            disagree.add(c["id"])
        if guard == "guard=1" and spec != "spec=1":
            ctx.report("model-vs-spec", "guard holds but extracted model and specification functions disagree "
                       "(contradicts C05_exec_refines)", {"case": c, "model": out, "failing_input": False})
        ctx.bump("prim_guard", guard.split(":")[0] + (":" + guard.split(":")[2] if guard.count(":") == 2 else ""))
        if c["mode"] == "R":
            nontrivial = len(pieces(len(p["data"]), m["lens"], m["cap"])) >= 2
            ctx.count_case("prim|%s|%s|%d|%s|%s" % (p["data"].hex(), m["lens"], m["cap"], c.get("ctor"), p["cmds"]),
                           nontrivial=nontrivial)
            ctx.bump("prim_by_pattern", m.get("pat", "?"))
            ctx.bump("prim_by_cap", str(m["cap"]))
        ctx.bump("prim_by_class", p["cls"])
        for cm in p["cmds"]:
            ctx.bump("prim_commands", cm.split(":")[0])
        if ip is not None:
            ctx.bump("prim_impl_panics")
    ctx.note("prim_cases", len(cases))
    ctx.note("prim_programs", len(progs))
    ctx.note("traces_validated_against_impl", len(cases) - len(disagree))

    # oracle on every streaming case: its observation equals the contiguous one
    reported_corr = False
    outside = 0
    for c in cases:
        if c["mode"] != "R":
            continue
        m = meta[c["id"]]
        p = progs[m["p"]]
        it, ip = project_impl(byid[c["id"]])
        bt, bp = project_impl(byid[m["base"]])
        same = (it == bt) and ((ip is None) == (bp is None))
        model_ok = c["id"] not in disagree and m["base"] not in disagree
        if same:
            if len(ctx.cov["samples"]) < 4 and len(m["lens"]) > 2 and p["cls"] == "valid":
                ctx.sample({"stream": p["data"].hex(), "cmds": p["cmds"], "reads": m["lens"], "cap": m["cap"],
                            "observed": it, "contiguous": bt})
            continue
        i = first_diff(it, bt)
        cmdname = p["cmds"][i].split(":")[0] if i is not None and i < len(p["cmds"]) else "end"
        guard = mproj[c["id"]][2]
        gb = mproj[m["base"]][2]
        g = guard if guard.count(":") == 2 else gb
        why, at = (g.split(":")[2], int(g.split(":")[1])) if g.count(":") == 2 else ("", -1)
        if i is not None and i < at:
            why = ""          # the runs differ before the command whose guard fails
        replay = {"case": c, "contiguous_case": case_by_id[m["base"]],
                  "observed": byid[c["id"]], "contiguous": byid[m["base"]], "model": out_by_id[c["id"]],
                  "failing_input": True}
        what = ("stream %s cmds %s reads %s cap %d: streaming gives %s%s, contiguous gives %s%s"
                % (p["data"].hex(), p["cmds"], m["lens"], m["cap"], it, " PANIC " + ip if ip else "", bt,
                   " PANIC " + bp if bp else ""))
        if why == "input":
            outside += 1      # malformed UTF-8 / declared length: outside the property's quantifier
        else:
            ctx.report("prim-streaming-differs:" + cmdname, what, replay)
    ctx.note("fragmentation_dependent_outcomes_on_malformed_strings(outside the quantifier)", outside)
    if disagree:
        # model and implementation differ: the oracle above has already looked at each of these cases
        if not ctx.violations:
            c = case_by_id[min(disagree)]
            ctx.report("correspondence", "Model/DecStream.v no longer matches the decoder (theorems C05_* not transferred)",
                       {"case": c, "observed": byid[c["id"]], "model": out_by_id[c["id"]], "failing_input": False,
                        "correspondence": "DecStream.run_list vs io.Decoder primitives", "disagreeing_cases": len(disagree)})
        ctx.note("model_impl_disagreements", len(disagree))

    # ---------------- B. full decodes of encoder output and all truncations
    rc, sobs, err = hv.run_harness("c05", [{"id": 0, "kind": "samples"}])
    if rc != 0 or not sobs:
        raise hv.EnvError("samples: " + err[-500:])
    samples = sobs[0]["items"]
    extra = [("py-u3", "iface", True, "u€".encode()), ("py-u3s", "string", True, "u你".encode()),
             ("py-list-u3", "[]string", True, 'a3{u€s2"€€"u好}'.encode()),
             ("py-long-int", "iface", True, b"l-12345678901234567890123456789;"),
             ("py-double", "float64", True, b"d-1.2345678901234567e-300;"),
             ("py-bytes", "bytes", True, b'b5"\xe2\x82\xac\xf0\x9f"'),
             ("py-guid", "iface", True, b"g{01234567-89ab-cdef-0123-456789abcdef}"),
             ("py-map", "map[string]iface", True, 'm2{s2"k€"u€s1"x"a2{1;i12;}}'.encode())]
    # conversions whose result keeps bytes of the stream (number text into a string, digit string into a
    # number): followed by filler so that Remains() refills the buffer before the value is looked at
    filler = b"s300\"" + b"f" * 300 + b"\""
    for simple in (True, False):
        sfx = "" if simple else "-ref"
        extra += [("py-int-into-string" + sfx, "string", simple, b"i1234567;" + filler),
                  ("py-long-into-string" + sfx, "string", simple, b"l98765432109876543210;" + filler),
                  ("py-double-into-string" + sfx, "string", simple, b"d3.14159;" + filler),
                  ("py-nums-into-strings" + sfx, "[]string", simple, b"a3{i1234567;d3.5;l98765432109876543210;}" + filler),
                  ("py-nums-into-map" + sfx, "map[string]string", simple, b'm2{s1"a"i1234567;s1"b"d2.5;}' + filler),
                  ("py-string-into-int" + sfx, "int", simple, b's3"128"' + filler),
                  ("py-string-into-bigint" + sfx, "bigint", simple, b's3"128"' + filler),
                  ("py-string-into-float" + sfx, "float64", simple, b's4"1.25"' + filler),
                  ("py-strings-into-ints" + sfx, "[]int", simple, b'a3{s3"128"s1"7"u9}' + filler),
                  ("py-bytes-into-string" + sfx, "string", simple, b'b5"hello"' + filler),
                  ("py-string-into-bytes" + sfx, "bytes", simple, b's5"hello"' + filler)]
    # fixed-size byte destinations ([N]byte, uuid) take the unsafe-window paths; decoder/Formatter options
    # (LongType, RealType, MapType) must act the same for a reader and for a slice
    u16 = bytes(range(0x41, 0x51))
    for simple in (True, False):
        sfx = "" if simple else "-ref"
        extra += [("py-uuid-from-bytes" + sfx, "uuid", simple, b'b16"' + u16 + b'"' + filler),
                  ("py-uuids-from-bytes" + sfx, "[]uuid", simple, b'a2{b16"' + u16 + b'"b16"' + u16[::-1] + b'"}'),
                  ("py-arr16-from-bytes" + sfx, "[16]byte", simple, b'b16"' + u16 + b'"' + filler),
                  ("py-arr16s-from-bytes" + sfx, "[][16]byte", simple, b'a2{b16"' + u16 + b'"b16"' + u16[::-1] + b'"}'),
                  ("py-arr4-from-string" + sfx, "[4]byte", simple, b's4"wxyz"' + filler),
                  ("py-uuid-from-guid" + sfx, "uuid", simple, b"g{01234567-89ab-cdef-0123-456789abcdef}" + filler),
                  ("py-uuid-from-string" + sfx, "uuid", simple, b's36"01234567-89ab-cdef-0123-456789abcdef"' + filler),
                  ("py-bigfloat" + sfx, "bigfloat", simple, b"d1.25e10;" + filler), ("py-bigrat" + sfx, "bigrat", simple, b's4"22/7"' + filler)]
    for name, typ, simple, b in extra:
        samples.append({"name": name, "type": typ, "simple": simple, "hex": b.hex()})
    optsamples = [("opt-long", "iface", b"l12345678901234567890;"), ("opt-long-list", "[]iface", b"a2{l5;l-7;}"), ("opt-double", "iface", b"d1.5;"),
                  ("opt-map", "iface", b'm1{s1"k"i5;}'), ("opt-nested", "[]iface", b'a3{l9;d2.5;m1{1l7;}}')]
    for name, typ, b in optsamples:
        for lt in (0, 1, 2, 3, 4, 5, 6):
            for rt, mt in ((0, 0), (1, 1), (2, 0)):
                if lt == 0 and rt == 0 and mt == 0:
                    continue
                samples.append({"name": "%s-lt%d-rt%d-mt%d" % (name, lt, rt, mt), "type": typ, "simple": True, "hex": b.hex(),
                                "lt": lt, "rt": rt, "mt": mt})
    dcases, dmeta = [], {}
    did = 0
    for s in samples:
        full = bytes.fromhex(s["hex"])
        n = len(full)
        short = n <= (34 if quick else 80)
        cuts = list(range(1, n + 1)) if short else sorted(set([n, n - 1] + [rng.randint(1, n) for _ in range(8 if quick else 60)]))
        for cut in cuts:
            data = full[:cut]
            did += 1
            base = did
            opts = {k: s[k] for k in ("lt", "rt", "mt") if k in s}
            dcases.append(dict({"id": did, "kind": "decode", "mode": "B", "data": data.hex(), "type": s["type"], "simple": s["simple"]}, **opts))
            if opts:
                # the Formatter pair: Unmarshal (contiguous) against UnmarshalFromReader
                did += 1
                fbase = did
                dcases.append(dict({"id": did, "kind": "decode", "mode": "B", "usefmt": True, "data": data.hex(), "type": s["type"], "simple": s["simple"]}, **opts))
                dmeta[did] = {"s": s["name"] + ":fmt", "base": fbase, "data": data, "mode": "B", "valid": cut == n}
                did += 1
                dcases.append(dict({"id": did, "kind": "decode", "mode": "R", "ctor": "fmt", "cap": 256, "data": data.hex(), "lens": [max(1, cut // 2)],
                                    "eof_last": False, "type": s["type"], "simple": s["simple"]}, **opts))
                dmeta[did] = {"s": s["name"] + ":fmt", "base": fbase, "data": data, "mode": "R", "lens": [max(1, cut // 2)], "cap": 256, "ctor": "fmt",
                              "pat": "half", "valid": cut == n}
            dmeta[base] = {"s": s["name"], "base": base, "data": data, "mode": "B", "valid": cut == n}
            pats = chunkings(rng, cut, short and (quick is False or cut <= 22), 5, 3, 2 if quick else 6)
            for kind, lens in pats:
                r = rng.random()
                if r < 0.45:
                    ctor, cap = "reset", rng.choice(TINY)
                elif r < 0.93:
                    ctor, cap = "new", rng.choice(BIG)
                else:
                    ctor, cap = "fmt", 256
                did += 1
                dcases.append(dict({"id": did, "kind": "decode", "mode": "R", "ctor": ctor, "cap": cap, "data": data.hex(),
                                    "lens": lens, "eof_last": rng.random() < 0.25, "type": s["type"], "simple": s["simple"]}, **opts))
                dmeta[did] = {"s": s["name"], "base": base, "data": data, "mode": "R", "lens": lens,
                              "cap": real_cap(ctor, cap), "ctor": ctor, "pat": kind, "valid": cut == n}
    rc, dobs, err = hv.run_harness("c05", dcases)
    dby = {o["id"]: o for o in dobs}
    dcase_by_id = {c["id"]: c for c in dcases}
    if rc != 0 or len(dby) != len(dcases):
        first = next((c for c in dcases if c["id"] not in dby), None)
        ctx.report("harness-crash", "harness process died (rc=%d) on %s: %s" % (rc, json.dumps(first)[:300], err[-400:]),
                   {"case": first, "stderr": err[-2000:], "failing_input": True})
        dcases = [c for c in dcases if c["id"] in dby and dmeta[c["id"]]["base"] in dby]
    valid_ok = 0
    for c in dcases:
        m = dmeta[c["id"]]
        o = dby[c["id"]]
        if c["mode"] == "B":
            if m["valid"] and o.get("err") == "-" and not o.get("panic"):
                valid_ok += 1
            continue
        b = dby[m["base"]]
        data = m["data"]
        bs = bounds(len(data), m["lens"], m["cap"])
        ctx.count_case("dec|%s|%s|%d|%s|%s" % (c["data"], m["lens"], m["cap"], m["ctor"], c["type"]),
                       nontrivial=len(bs) >= 1)
        ctx.bump("decode_by_pattern", m["pat"])
        ctx.bump("decode_by_cap", "%s:%d" % (m["ctor"], m["cap"]))
        ctx.bump("decode_err_classes", (o.get("err") or "panic").split(":")[0])
        fields = ["val", "err", "panic"] + ([] if m["ctor"] == "fmt" else ["rest"])
        diff = [f for f in fields if (bool(o.get(f)) != bool(b.get(f)) if f == "panic" else o.get(f) != b.get(f))]
        if not diff:
            continue
        what = ("%s stream %s (%s) reads %s buffer %d via %s: streaming val=%s err=%s rest=%s panic=%s; contiguous val=%s err=%s rest=%s panic=%s"
                % (c["type"], data.hex(), m["s"], m["lens"], m["cap"], m["ctor"], o.get("val"), o.get("err"), o.get("rest"),
                   o.get("panic"), b.get("val"), b.get("err"), b.get("rest"), b.get("panic")))
        replay = {"case": c, "contiguous_case": dcase_by_id[m["base"]], "observed": o,
                  "contiguous": b, "failing_input": True}
        ctx.report("decode-streaming-differs:" + "+".join(diff), what, replay)
    ctx.note("decode_cases", len(dcases))
    ctx.note("decode_streams", len(samples))
    ctx.note("decode_valid_streams_decoding_without_error", valid_ok)
    ctx.note("rule", "streaming cases only; primitive sequences: grammar-generated token streams (valid, truncated) and "
             "garbage streams x {every two-way split, every fixed chunk size 1..n (short streams), sampled splits/sizes "
             "(long), seeded random chunk sequences with zero-length reads} x buffer sizes {1,2,3,4,5,7,8,16,64 via "
             "the verif constructor io.VerifNewDecoderFromReader, 256,257,4096 via NewDecoderFromReader}; full decodes: encoder output for 30 "
             "Go values in simple and reference mode + hand-written streams, every truncation (short) or sampled "
             "(long), same chunk patterns; non-trivial = the reader delivered the data in at least two reads; distinct "
             "by (stream, read lengths, buffer size, constructor, commands/type)")
    ctx.note("exhaustive", False)


def replay(ctx, path):
    r = json.load(open(path))
    hv.build_harness("c05")
    rc, obs, err = hv.run_harness("c05", [r["case"], r["contiguous_case"]])
    print(json.dumps(obs))
    if len(obs) != 2:
        print("property oracle: harness crashed", err[-300:])
        return 1
    a, b = obs
    diff = oracle_diff(r["case"], a, b)
    print("property oracle: streaming %s contiguous in %s" % ("differs from" if diff else "equals", diff or "every observable"))
    return 1 if diff else 0
