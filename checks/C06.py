"""C06: the decoder accepts every well-formed stream and converts losslessly across types.
Proof: Props/C06.v.  Tables: coq/Gen/DecTables.v regenerated from io/*.go on every run.
Tie: an independent writer (the extracted Wire.emit) produces streams from wire trees chosen by the
generator (all alternative spellings); the real io.Decoder decodes them into zero-initialised
destinations of ~70 types in every container position and under every option setting; the decoded
Go value, printed by reflection, is compared with the model's dec; the property's own oracle
(representable on the denotation) is evaluated on the implementation's behaviour."""
import json
import os
import hv
import c06gen as G
import c06run as R


def run(ctx):
    ctx.level = "proof"
    ctx.assumptions += [
        "oracles (standard library / hardware, supplied per case by the harness): strconv.ParseFloat/FormatFloat/ParseComplex, "
        "math/big SetString/Text/String, time.Unix/Parse/String, uuid.Parse, float64->integer conversions",
        "the decoded Go value is described by reflection (harness/cmd/c06/walk.go); pointers are compared by unfolding",
        "time.Local is a fixed zero-offset zone in the executor",
    ]
    # no child process (coqc, extraction, executors) may grow without bound
    try:
        import resource
        resource.setrlimit(resource.RLIMIT_AS, (20 * 1024 ** 3, 20 * 1024 ** 3))
    except Exception:
        pass
    gen = hv.regen_gen()
    ctx.note("tables", {k: v for k, v in gen.items() if k in ("DecTables",)})
    ctx.prove()
    env = R.prepare(ctx)
    cases = R.build_cases(ctx, env)
    R.execute(ctx, env, cases)
    R.judge(ctx, env, cases)
    ctx.note("rule", "cases = (wire tree from the independent writer, destination type, decoder options); families: every tag class and "
             "spelling x ~70 destination types at top level; the same token in slice / array / map value / map key / struct field / "
             "pointer (1 and 3 deep) position; reference mode; interface{} under every LongType/RealType/MapType/ListType setting; "
             "lists, maps and objects (extra, missing, reordered, unknown fields, maps for objects, lists for maps, unregistered classes) "
             "into ~60 container types (the list form also into maps whose values own storage); references to every referable construct "
             "through every converter, cycles; the same cases through a stream decoder refilled afterwards and on an input slice "
             "overwritten afterwards; strings over every UTF-8 lead-byte class in every string position (values, keys, field and class "
             "names, chunked reader); every time token with time.Local at +05:00 and -09:30; the cost limits of *big.Int / *big.Rat "
             "(refused side exactly, accepted side at 1e1000: stated exclusion, RUnspec beyond the limits); random structured "
             "values of depth <= 3; corpus of past findings. non-trivial = anything but the null token; distinct by (options, type, wire tree).")
    ctx.note("oracle", "extracted representable(denote w) judges the implementation's outcome on every case; position independence is "
             "checked on the implementation's own results (top level against each wrapper)")


def replay(ctx, path):
    r = json.load(open(path))
    env = R.prepare(ctx)
    c = R.case_from_replay(r["case"])
    c.id = 1
    R.execute(ctx, env, [c])
    bad = R.judge(ctx, env, [c], verbose=True)
    for key, what, _ in ctx.violations:
        print("FAILS", key, "-", what[:300])
    print("replay verdict:", c.model.get("gv") or c.model.get("mv"), "expected by the specification:", c.model.get("repval") or c.model.get("rep"))
    return 1 if bad else 0
